#!/bin/sh
# run every quick check once on the unchanged tree (evidence files are rewritten); prints one line each
cd "$(dirname "$0")/.."
for i in 01 02 03 04 05 06 07 08 09 10 11 12 13 14 15 16 17 18 19 20; do
  bin/check C$i ${1:-quick} > /tmp/regen_C$i.log 2>&1; echo "C$i rc=$? $(tail -1 /tmp/regen_C$i.log | cut -c1-200)"
  grep -E "^(VIOLATION|INCONCLUSIVE|HARNESS-ERROR|note:)" /tmp/regen_C$i.log | head -5
done

#!/usr/bin/env python3
import json, sys, glob
for f in sorted(glob.glob('/verif/replays/%s/*.json' % sys.argv[1])):
    d = json.load(open(f))
    print(json.dumps(d['unit'])[:150], json.dumps(d['input'], ensure_ascii=True)[:200], '\n   real', json.dumps(d['observed_on_real_code'])[:220], '\n   exp ', json.dumps(d['expected_by_property'])[:220], 'n=%d' % d['similar_counterexamples'])

#!/usr/bin/env python3
"""Mutation self-test (DESIGN Appendix B): each mutant is applied to a scratch copy of
/repo/src (outside /repo and /verif, removed afterwards) and the named check must report a
violation (exit 1).  usage: tools/mutants.py [PROP ...] [--tier quick] [--jobs N] [--only substr]"""
import json
import os
import shutil
import subprocess
import sys
import tempfile

VERIF = os.path.dirname(os.path.dirname(os.path.abspath(__file__)))
sys.path.insert(0, VERIF)
from tools.mutant_list import MUTANTS, EQUIVALENT   # noqa


NPROC = 0


def run_one(m, tier, keep=False):
    tmp = tempfile.mkdtemp(prefix='vfmut_')
    try:
        src = os.path.join(tmp, 'src')
        shutil.copytree('/repo/src', src)
        path = os.path.join(src, 'ZConfig', m['file'])
        text = open(path).read()
        if text.count(m['old']) < 1:
            return 'STALE (pattern not found)', ''
        text = text.replace(m['old'], m['new'], 1)
        open(path, 'w').write(text)
        env = dict(os.environ, VERIF_REPO_SRC=src, VERIF_OUT=os.path.join(tmp, 'out'), VERIF_STRICT='1', VERIF_STOP_ON_VIOLATION='1')
        if NPROC:
            env['VERIF_NPROC'] = str(NPROC)
        if m.get('units'):
            env['VERIF_UNITS'] = m['units']
        p = subprocess.run([os.path.join(VERIF, 'bin', 'check'), m['prop'], tier],
                           capture_output=True, text=True, env=env)
        tail = '\n'.join(p.stdout.strip().splitlines()[-3:])
        if p.returncode == 1:
            return 'KILLED', tail
        if p.returncode == 0:
            if m['name'] in EQUIVALENT:
                return 'EQUIVALENT', EQUIVALENT[m['name']]
            return 'SURVIVED', tail
        return 'HARNESS-ERROR(rc=%d)' % p.returncode, tail + p.stderr[-500:]
    finally:
        shutil.rmtree(tmp, ignore_errors=True)


def main():
    args = sys.argv[1:]
    tier = 'quick'
    only = None
    jobs = 1
    props = []
    i = 0
    while i < len(args):
        if args[i] == '--tier':
            tier = args[i + 1]; i += 2
        elif args[i] == '--jobs':
            jobs = int(args[i + 1]); i += 2
        elif args[i] == '--only':
            only = args[i + 1]; i += 2
        else:
            props.append(args[i].upper()); i += 1
    res = []
    todo = [m for m in MUTANTS if not (props and m['prop'] not in props)
            and not (only and only not in m['name'])]
    global NPROC
    if jobs > 1:
        NPROC = max(2, 16 // jobs)
    import concurrent.futures as cf
    with cf.ThreadPoolExecutor(max_workers=jobs) as ex:
        for m, (st, tail) in zip(todo, ex.map(lambda m: run_one(m, tier), todo)):
            print('%-9s %-4s %s' % (st, m['prop'], m['name']), flush=True)
            if st != 'KILLED':
                print('     ' + tail.replace('\n', '\n     '))
            res.append({'prop': m['prop'], 'name': m['name'], 'status': st})
    out = os.path.join(VERIF, 'selftest_results.json')
    old = []
    if os.path.exists(out):
        old = [r for r in json.load(open(out)) if (r['prop'], r['name']) not in {(x['prop'], x['name']) for x in res}]
    json.dump(sorted(old + res, key=lambda r: (r['prop'], r['name'])), open(out, 'w'), indent=1)
    bad = [r for r in res if r['status'] not in ('KILLED', 'EQUIVALENT')]
    print('%d mutants, %d killed, %d not killed' % (len(res), len(res) - len(bad), len(bad)))
    return 1 if bad else 0


if __name__ == '__main__':
    sys.exit(main())

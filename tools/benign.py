#!/usr/bin/env python3
"""Behaviour-preserving refactorings (written by independent sub-agents, kept under /verif/benign/<id>/)
must NOT raise an alarm: the checks listed in each meta.json are run on the patched copy of
/repo/src and must exit 0 without a VIOLATION line (INCONCLUSIVE lines are recorded).

usage: tools/benign.py [--jobs N] [--tier quick] [id-substring ...]   -> benign/RESULTS.json"""
import concurrent.futures as cf
import json
import os
import shutil
import subprocess
import sys
import tempfile

VERIF = os.path.dirname(os.path.dirname(os.path.abspath(__file__)))
BEN = os.path.join(VERIF, 'benign')


def run_one(bid, tier, nproc):
    meta = json.load(open(os.path.join(BEN, bid, 'meta.json')))
    if meta.get('stale'):
        return {'id': bid, 'tier': tier, 'status': 'STALE', 'detail': meta['stale'], 'checks': {}}
    tmp = tempfile.mkdtemp(prefix='vfben_')
    try:
        shutil.copytree('/repo/src', os.path.join(tmp, 'src'))
        p = subprocess.run(['patch', '-p1', '-s', '-d', tmp, '-i', os.path.join(BEN, bid, 'patch.diff')],
                           capture_output=True, text=True)
        if p.returncode != 0:
            return {'id': bid, 'status': 'PATCH-FAILED', 'detail': (p.stdout + p.stderr)[-300:]}
        res = {'id': bid, 'tier': tier, 'checks': {}}
        for prop in meta['checks']:
            env = dict(os.environ, VERIF_REPO_SRC=os.path.join(tmp, 'src'), VERIF_OUT=os.path.join(tmp, 'out'))
            env.pop('VERIF_STRICT', None)
            if nproc:
                env['VERIF_NPROC'] = str(nproc)
            q = subprocess.run([os.path.join(VERIF, 'bin', 'check'), prop, tier], capture_output=True, text=True, env=env)
            lines = q.stdout.strip().splitlines()
            res['checks'][prop] = {'rc': q.returncode,
                                   'violations': len([l for l in lines if l.startswith('VIOLATION')]),
                                   'inconclusive': [l[:300] for l in lines if l.startswith('INCONCLUSIVE')],
                                   'notes': [l[:300] for l in lines if l.startswith('note:')],
                                   'tail': lines[-1][:300] if lines else q.stderr[-300:]}
            viol = [l for l in lines if l.startswith('VIOLATION')]
            if viol:
                try:
                    d = json.load(open(viol[0].split('replay=')[1].strip()))
                    res['checks'][prop]['example'] = {k: d[k] for k in ('unit', 'input', 'observed_on_real_code',
                                                                        'expected_by_property') if k in d}
                except Exception:
                    pass
        bad = [p for p, r in res['checks'].items() if r['rc'] != 0 or r['violations']]
        soft = [p for p, r in res['checks'].items() if r['inconclusive'] or r['notes']]
        res['status'] = 'ALARM' if bad else ('QUIET-BUT-INCONCLUSIVE' if soft else 'QUIET')
        res['alarms'] = bad
        return res
    finally:
        shutil.rmtree(tmp, ignore_errors=True)


def main():
    args = sys.argv[1:]
    tier, jobs, subs = 'quick', 1, []
    i = 0
    while i < len(args):
        if args[i] == '--tier':
            tier = args[i + 1]; i += 2
        elif args[i] == '--jobs':
            jobs = int(args[i + 1]); i += 2
        else:
            subs.append(args[i]); i += 1
    ids = sorted(d for d in os.listdir(BEN) if os.path.isdir(os.path.join(BEN, d)))
    if subs:
        ids = [d for d in ids if any(s in d for s in subs)]
    nproc = max(2, 16 // jobs) if jobs > 1 else 0
    out = []
    with cf.ThreadPoolExecutor(max_workers=jobs) as ex:
        for r in ex.map(lambda b: run_one(b, tier, nproc), ids):
            print('%-24s %-16s %s' % (r['status'], r['id'], ' '.join('%s:rc%d%s' % (p, c['rc'], '!' if c['inconclusive'] or c['notes'] else '')
                                                                      for p, c in r.get('checks', {}).items())), flush=True)
            out.append(r)
    path = os.path.join(BEN, 'RESULTS.json')
    old = json.load(open(path)) if os.path.exists(path) else []
    keep = [r for r in old if r['id'] not in {x['id'] for x in out}]
    json.dump(sorted(keep + out, key=lambda r: r['id']), open(path, 'w'), indent=1)
    bad = [r for r in out if r['status'] in ('ALARM', 'PATCH-FAILED')]
    print('%d refactorings, %d quiet, %d alarms' % (len(out), len(out) - len(bad), len(bad)))
    return 1 if bad else 0


if __name__ == '__main__':
    sys.exit(main())

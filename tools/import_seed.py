#!/usr/bin/env python3
"""Confirm a sub-agent's seeded change in a fresh scratch worktree and file it under
/verif/seeded/<id>/ (patch.diff, demo.py, NOTES.md, meta.json).

usage: tools/import_seed.py <seed-dir> <id> <property> "<what it needs to manifest>" [also ...]
A change is kept only if: the patch applies to a clean worktree of /repo HEAD, the repository
test-suite gives the same result with it as without it (the only failure allowed is the
baseline's tty-dependent test_schema_only), and the demonstration exits 0 on the clean tree and
non-zero with the change."""
import json
import os
import re
import shutil
import subprocess
import sys
import tempfile

VERIF = os.path.dirname(os.path.dirname(os.path.abspath(__file__)))
PYTEST = ['/venv/bin/python', '-m', 'pytest', '-q', '-p', 'no:cacheprovider', '--timeout=900', '-x', '-q']


def sh(cmd, **kw):
    return subprocess.run(cmd, capture_output=True, text=True, **kw)


def tests(wt):
    p = sh(['/venv/bin/python', '-m', 'pytest', '-q', '-p', 'no:cacheprovider', '--timeout=900'], cwd=wt)
    tail = p.stdout.strip().splitlines()[-1] if p.stdout.strip() else p.stderr[-200:]
    failed = re.findall(r'^FAILED (\S+)', p.stdout, re.M)
    return tail, failed


def main():
    seed, sid, prop, needs = sys.argv[1:5]
    also = sys.argv[5:]
    wt = tempfile.mkdtemp(prefix='vfwt_')
    os.rmdir(wt)
    ran = []
    try:
        r = sh(['git', '-C', '/repo', 'worktree', 'add', '--detach', wt, 'HEAD'])
        assert r.returncode == 0, r.stderr
        patch = os.path.join(seed, 'patch.diff')
        demo = os.path.join(seed, 'demo.py')
        env = dict(os.environ, PYTHONPATH=os.path.join(wt, 'src'), PYTHONDONTWRITEBYTECODE='1')
        d0 = sh(['/venv/bin/python', demo], env=env, cwd=wt)
        ran.append('clean worktree: demo.py -> exit %d' % d0.returncode)
        r = sh(['git', 'apply', '--index', patch], cwd=wt)
        if r.returncode != 0:
            r = sh(['git', 'apply', patch], cwd=wt)
        ran.append('git apply patch.diff -> %d %s' % (r.returncode, r.stderr.strip()[:200]))
        if r.returncode != 0:
            print('REJECTED: patch does not apply', r.stderr)
            return 1
        files = sh(['git', 'diff', 'HEAD', '--stat'], cwd=wt).stdout
        if re.search(r'/tests/', files):
            print('REJECTED: patch touches tests')
            return 1
        d1 = sh(['/venv/bin/python', demo], env=env, cwd=wt)
        ran.append('changed worktree: demo.py -> exit %d: %s' % (d1.returncode, (d1.stdout + d1.stderr).strip()[-300:]))
        tail, failed = tests(wt)
        ran.append('changed worktree: pytest -> %s; failed=%s' % (tail, failed))
        ok = (d0.returncode == 0 and d1.returncode != 0
              and all('test_schema_only' in f for f in failed) and 'passed' in tail)
        print('\n'.join(ran))
        if not ok:
            print('REJECTED')
            return 1
        dst = os.path.join(VERIF, 'seeded', sid)
        os.makedirs(dst, exist_ok=True)
        # store the patch as produced by git from the verified worktree
        full = sh(['git', 'diff', 'HEAD', '--', 'src'], cwd=wt).stdout
        open(os.path.join(dst, 'patch.diff'), 'w').write(full)
        shutil.copy(demo, os.path.join(dst, 'demo.py'))
        if os.path.exists(os.path.join(seed, 'NOTES.md')):
            shutil.copy(os.path.join(seed, 'NOTES.md'), os.path.join(dst, 'NOTES.md'))
        json.dump({'id': sid, 'property': prop, 'also': also,
                   'needs_to_manifest': needs,
                   'origin': 'independent sub-agent given only the property text and a scratch worktree',
                   'repo_head': sh(['git', '-C', '/repo', 'rev-parse', '--short', 'HEAD']).stdout.strip(),
                   'confirmed_by_running': ran},
                  open(os.path.join(dst, 'meta.json'), 'w'), indent=1)
        print('KEPT as', dst)
        return 0
    finally:
        sh(['git', '-C', '/repo', 'worktree', 'remove', '--force', wt])
        shutil.rmtree(wt, ignore_errors=True)


if __name__ == '__main__':
    sys.exit(main())

#!/usr/bin/env python3
"""Regenerates /verif/MANIFEST.json from the table below (kept in one place so that the
manifest is valid at every commit)."""
import json
import os

VERIF = os.path.dirname(os.path.dirname(os.path.abspath(__file__)))

TECH = ('bounded symbolic execution of the real ZConfig source (AST-instrumented at import, '
        'shape-concrete/content-symbolic strings) with z3 deciding every branch and the '
        'end-of-path assertion; counterexamples and one witness per path replayed on pristine code')

CLAIMED = {
    'C04': dict(
        text='For every source string up to the length bound over ALL Unicode code points, and the '
             'enumerated mappings/environments, z3 shows on every feasible path of the real '
             'substitute/_split/isname that the result equals an independent reference model '
             '(kind of outcome, text, error name/source).  Bounded model checking: nothing is '
             'claimed for longer strings.',
        note='trusted: z3, the engine\'s models of str/regex primitives (cross-checked on every path '
             'by replaying a witness on the un-instrumented code), the reference model in '
             'vf/oracles/subst.py; os.getenv is stubbed by a finite environment',
        ref='DESIGN.md section 7 C04'),
    'C03': dict(
        text='For every text within the bounds (1-3 fully symbolic lines and 18-29 line templates with '
             'symbolic holes, characters over ASCII plus one representative per non-ASCII class) z3 shows '
             'on every feasible path of the real parser - driven through a recording context and through '
             'the schema-less loader - that the event trace / nested mapping equals the one an independent '
             'line-grammar reference produces, or that both reject with the same error family.',
        note='trusted: z3, engine models of str/regex primitives (replayed per path on pristine code), '
             'vf/oracles/linegrammar.py; lines are split at \\n only; resource URL empty',
        ref='DESIGN.md section 7 C03'),
    'C09': dict(
        text='For every stock datatype with a reference contract and every input string up to the '
             'per-type length bound (regex types over all of Unicode, the others over domain D) z3 shows '
             'on every path that the converter returns the reference value or raises ValueError exactly '
             'when the reference does, that key normalisers are idempotent and that Registry.get '
             'normalises names; 28 long inputs (a concrete prefix of 10-40 characters followed by 1-3 symbolic '
             'characters) reach beyond the length bounds; float and timedelta run on an exact rational model of float() / '
             'datetime.timedelta (value within a tolerance, ValueError / TypeError classes exact); the regex '
             'languages (basic-key, identifier, dotted-name, dotted-suffix, and ipaddr-or-hostname restricted to '
             'colon-free strings) are additionally proved equal to reference regexes for strings of every '
             'length (z3 regex theory).',
        note='trusted: z3, engine models of str/int()/float()/regex primitives (replayed per path), '
             'vf/oracles/dtspec.py, a pure-Python model of inet_pton(AF_INET6); binary floating-point rounding, '
             'locale and existing-* are outside the claim',
        ref='DESIGN.md section 7 C09', engine='E1-VSE + E2-regex'),
    'C01': dict(
        text='For every schema of the generated family and every balanced line shape up to the line '
             'bound, with every key / section-type / section-name / value token symbolic, z3 shows on '
             'every feasible path of the real load pipeline that the text is accepted exactly when an '
             'independent conformance oracle (working from the schema description) accepts it, and '
             'that rejection is a ZConfig.ConfigurationError.',
        note='trusted: z3, engine models of primitives (replayed per path, plus boundary witnesses where '
             'tokens coincide with each other or with vocabulary words), vf/oracles/conformance.py and '
             'linegrammar.py; schemas outside vf/gen.py and longer texts are outside the claim',
        ref='DESIGN.md section 7 C01'),
    'C02': dict(
        text='On every accepting path of the symbolically executed load pipeline (generated schema family, '
             'symbolic tokens and values) z3 shows that the value tree read through the public section-value '
             'API equals the tree an independent oracle derives from the schema description: attributes and '
             'their order, converted values and defaults (conversions are z3 terms on both sides), [] vs '
             'None, wildcard maps, section type and lower-cased name, section datatype applied.',
        note='trusted: z3, engine models of primitives (replayed per path), vf/oracles/conformance.py and '
             'dtspec.py; float and datatypes without a reference conversion are outside the claim',
        ref='DESIGN.md section 7 C02'),
    'C07': dict(
        text='On every feasible path of the loading entry points run on symbolic texts (fully symbolic '
             'lines and templates through the whole loader, directive names of 6-7 symbolic characters), symbolic override specifiers and all include '
             'graphs over three in-memory resources, symbolic %include arguments (package: URLs, //authority, '
             'http://, fragments, plain tails; urljoin/urldefrag executed symbolically through an instrumented '
             'copy of urllib/parse.py) and ZConfig.validator.main (schema from memory, configuration on stdin), '
             'the only exception that escapes is a ZConfig.ConfigurationError (validator: status 0 iff valid, '
             'else 1 with a message); any other exception class on a feasible path is a counterexample whose '
             'path condition yields the concrete input.',
        note='trusted: z3, engine models (replayed per path); openResource is replaced by in-memory '
             'resources, a symbolic URL outside the store is modelled as unopenable, __import__ of a symbolic '
             'name as "one known package or ImportError"; known finding F7 (include cycle -> RecursionError)',
        ref='DESIGN.md section 7 C07'),
    'C05': dict(
        text='For define / use / include sequences with symbolic names (case variants, illegal names) and '
             'symbolic raw values (nested references, $$, malformed constructs) z3 shows on every path of '
             'the real loader that the values seen by keys, the acceptance of re-definitions and the error '
             'family equal what the reference define rules give; included resources share the namespace, '
             'a second load against the same schema object starts empty.',
        note='trusted: z3, engine models (replayed per path), vf/oracles/linegrammar.py (define rules) and '
             'conformance.py; in-memory include resources; sequences of at most 4 lines: hand-written layouts, '
             'every pair (thorough: a quarter of the triples) of definition value kinds, the pairs split over an '
             'include in both directions, two loads on one schema and on one ConfigLoader object',
        ref='DESIGN.md section 7 C05'),
    'C06': dict(
        text='Differential: on every path z3 shows that the real loader gives equal value trees (or rejects '
             'both) for a text with balanced line ranges moved into included in-memory resources (same / '
             'sub / parent directory, nested cuts) and for the inlined text, with the same symbolic tokens; '
             'fragments that are unbalanced with respect to section nesting are rejected.',
        note='trusted: z3, engine models (replayed per path); the oracle is the real code on the inlined '
             'spelling; openResource replaced by in-memory resources; include arguments concrete; cuts = every '
             'balanced line range of 7 base texts (one with a %define inside a section) x 3-4 placements, references with blanks / $ / percent escapes, nested and disjoint pairs, unbalanced ranges, '
             'fragments leaving their own section open',
        ref='DESIGN.md section 7 C06'),
    'C08': dict(
        text='For valid texts (main and included resources) in which one line carries symbolic tokens, z3 '
             'shows on every rejecting path that the raised error carries the 1-based number - within its own '
             'resource - and the URL of the line the reference oracle holds responsible, for <t>..</t> and '
             '<t/> alike; conversion errors also carry the offending text and a ValueError instance.',
        note='trusted: z3, engine models (replayed per path), line attribution in vf/oracles; top-level '
             'requirements unmet at end of input, %import failures and unopenable resources are not asserted; '
             'layouts include faults in resources included 1-2 levels deep, lines made of vertical-whitespace '
             'characters in front of the fault, and the main resource loaded without a URL',
        ref='DESIGN.md section 7 C08'),
    'C14': dict(
        text='Differential: for accepted texts with sections (depth up to 3; concrete, and with symbolic section '
             'names / key so that names coincide with each other or with type names) and symbolic override '
             'specifiers (path components, key, value, and fully symbolic specifier strings) z3 shows on every '
             'path that loading with overrides gives the same value tree - or rejection, a conversion error '
             'where the edited text gives one - as loading the text edited by an independent editor that '
             'implements the rule of the statement; specifiers without = or with an empty component are refused. '
             'Texts include case-sensitive key types (identifier, ipaddr-or-hostname) and %import-ed section types '
             '(known finding F20: an override addressed to a section of an imported type is refused).',
        note='trusted: z3, engine models (replayed per path), the editor in vf/harness/c14.py; values with '
             'surrounding whitespace cannot be written as a text line and are excluded',
        ref='DESIGN.md section 7 C14'),
    'C15': dict(
        text='Metamorphic: for every balanced text shape up to 3 lines (thorough: plus a quarter of the 4-line '
             'shapes) of 3 (thorough 12) family schemas x each mechanical rewrite {whitespace, blank/comment lines, '
             'case, empty-section form, key reordering, all composed} and hand-written (original, rewritten) text pairs, plus a recursive '
             'section type nested to a depth chosen by a z3 integer (1..24, thorough 48) - symbolic whitespace for '
             'indentation and trailing space, symbolic comment text, modelled upper/lower/swapcase of section '
             'types, names, define names, references and case-insensitive keys, both empty-section forms, '
             'reordered key lines - with shared symbolic tokens, z3 shows on every path that the real loader '
             'yields equal value trees or rejects both; includes the shipped logger and mapping components.',
        note='trusted: z3, engine models (replayed per path); the oracle is the real code on the other '
             'spelling; rewrites are applied at every applicable position at once, not sampled',
        ref='DESIGN.md section 7 C15'),
    'C17': dict(
        text='For 1-2 fully symbolic lines and line templates with symbolic holes, z3 shows on every path on '
             'which the schema-less loader accepts the text that str() of the result loads again to an equal '
             'structure (keys and value lists, section types, names, order, nesting, imports) and serialises '
             'to the identical text; %define and %include raise NotImplementedError.',
        note='trusted: z3, engine models incl. f-string concatenation and sorted() on symbolic keys '
             '(replayed per path); acceptance of the first load is C03',
        ref='DESIGN.md section 7 C17'),
    'C16': dict(
        text='For schemas with handlers on the schema, keys, multikeys, sections and multisections (two depths), '
             'enumerated texts and handler maps with two symbolic names (legal basic-keys: case variants, '
             'collisions, unknown names) and enumerated None entries, z3 shows on every path that len(handler), '
             'the sequence of calls, the delivered values (equal to, and the same objects as, the value-tree '
             'values), None skipping and the all-or-nothing rule equal what the oracle derives from the schema '
             'description: nested sections in closing order first, own items in schema order, schema handler last.',
        note='trusted: z3, engine models (replayed per path), expected_entries in vf/harness/c16.py and '
             'the conformance oracle; map names that are not legal basic-keys are outside the statement',
        ref='DESIGN.md section 7 C16'),
    'C18': dict(
        text='REDUCED SCOPE. %include references (symbolic path-only references over {a, b, ., /, #}, from the top '
             'resource and from a resource in a sub-directory) run through the real loader with urljoin / '
             'urldefrag executed symbolically and compared with an RFC 3986 reference resolver (a fragment is '
             'refused); schema extends / import-src references inside base schemas in other directories (4 '
             'concrete layouts with decoys). For all strings up to length 7 (quick) / 8 (thorough) over domain D z3 shows on every '
             'path that url.urlnormalize, the wrapper logic of url.urljoin, BaseLoader.isPath, BaseLoader.'
             'normalizeURL on URL-shaped input (fragment rejected, file:/x -> file:///x) and the name filter '
             'of _url_from_file equal reference rules; the language of _pathsep_rx is proved equal to the RFC '
             'scheme syntax for every length. The agreement of the four entry points on real directory trees, '
             'working directories and file names is NOT covered.',
        note='trusted: z3, engine models (replayed per path); urllib.parse.urldefrag, os.path.abspath and '
             'pathname2url are stubbed for symbolic arguments; os/urllib I/O on real layouts cannot take '
             'symbolic values and is outside the claim',
        ref='DESIGN.md section 7 C18', engine='E1-VSE + E2-regex'),
    'C19': dict(
        text='For schema (extends / import src / package component) and configuration (%include chains, includes '
             'inside a section, %import) scenarios on temp files, with the fault point a z3 integer pair '
             '(which created resource / which read call; which urlopen; which stream read; which datatype call; '
             'which section-datatype call), every feasible fault point is explored as a path: all objects created '
             'through createResource are closed and all URL streams are closed when the call returns or raises, '
             'and a following clean load gives the fresh outcome.',
        note='scenarios include resources named *.gz, data: URLs, an include cycle, ONE SchemaLoader serving two loads of the same URL (cache hit; failed first load); '
             'trusted: the tracking wrappers around createResource (documented override point) and urlopen; the '
             'fault spaces are finite and enumerated exhaustively through the solver; real file I/O is concrete',
        ref='DESIGN.md section 7 C19'),
    'C10': dict(
        text='For the enumerated schema-document templates (element sequences with symbolic attribute values: '
             'names, attribute, required, type / extends / implements (also over non-ASCII letters), default keys (also inherited under a derived key type), datatype / keytype / handler '
             'names, stray text) z3 shows on every path of the real SAX handler and info constructors that the '
             'document is accepted exactly when a reference model of the static rules accepts it, and that a '
             'rejection is a SchemaError raised while loading; every replayed witness is rendered to XML and '
             'loaded through expat.',
        note='trusted: z3, engine models (replayed per path through loadSchemaFile), vf/oracles/schemarules.py; '
             'XML well-formedness, <import>, dotted datatype names are outside the claim; every symbolic '
             'attribute value is additionally tried empty and absent',
        ref='DESIGN.md section 7 C10'),
    'C11': dict(
        text='Differential: for the composed/expanded schema pairs of vf/harness/c11.py (a self-nesting type extended twice; extends chain of length 3 with key-type '
             'override, inherited datatype, wildcard defaults re-normalised, implements not inherited; prefixes '
             'nested to depth 3; schema-level extends of in-memory bases in sub/parent directories, two levels '
             'deep with key type and datatype declared by the root only, three bases side by side; a diamond of '
             'three generated component packages imported repeatedly) and every balanced text shape up to 3 '
             '(thorough 4) lines with symbolic tokens, '
             'z3 shows on every path that the real loader gives equal value trees, or rejects both.',
        note='trusted: z3, engine models (replayed per path); the expansions are hand-written in '
             'vf/harness/c11.py; the oracle is the real code on the expanded schema',
        ref='DESIGN.md section 7 C11'),
    'C12': dict(
        text='For a schema with abstract types and concrete types that implement / extend / ignore them and two '
             'generated component packages, with symbolic section-type and name tokens and %import lines before, '
             'between and after the uses (also two packages that import each other), in single loads, every '
             '(earlier load, later load) pair and sequences of up to 3 loads against one schema '
             'object, z3 shows on every path that accept/reject and value trees equal those of a conformance '
             'oracle whose vocabulary an import extends from that line on for that load only (also across an '
             '%include, with one ConfigLoader object serving the sequence, after a component that fails half-way, '
             'and with overrides pending - known finding F20); a separate '
             'obligation compares getsubtypenames() of the schema before and after (known finding F10).',
        note='trusted: z3, engine models (replayed per path), conformance oracle; package names concrete',
        ref='DESIGN.md section 7 C12'),
    'C13': dict(
        text='Histories of up to 3 (thorough 4) operations, each chosen by a z3 integer from 22 operations {valid '
             'loads + mutation of every reachable list/dict, valid loads using every kind of default (lists, '
             'keyed wildcard maps, string-list), syntax / matching / conversion / section-datatype failures, a '
             'section using a name reserved by a key and vice versa, %import loads (datatype names differing in case, a stock '
             'datatype named by dotted path, a component type extending a schema type), loads with overrides (also into a keyed-default map), items without defaults}, '
             'run against ONE schema object; every step equals the same load against a fresh schema - value tree, or error '
             'class AND error text; a separate obligation compares a structural digest '
             'of the schema before and after (known finding F10).',
        note='the solver enumerates a finite history space (honest note in DESIGN); one value token symbolic; '
             'oracle = real code on a fresh schema',
        ref='DESIGN.md section 7 C13'),
    'C20': dict(
        text='REDUCED SCOPE. z3 shows on every path that logging_level (all strings up to the bound), the '
             'FileHandlerFactory option logic (max-size, old-files, interval as unbounded z3 integers; when, '
             'delay, encoding, path as z3 choices) and the style / facility / method converters equal the '
             'documented decision tables. Finite parts driven through the engine: logger/eventlog factories '
             '(name, level, propagate, handlers in order with level and format, idempotent), every sequence of '
             '{call factory, reopenFiles, closeFiles, drop references} up to the bound on real temp-file '
             'handlers (closeFiles closes every live stream), re-configuration of one logger name (propagate and '
             'level of the latest configuration win), and 29 hand-written + 490 generated formats (every record '
             'field x 4 styles x braced/unbraced, every conversion / presentation type on the numeric and string '
             'fields, x 2 formatter classes): accepted at load time => the formatter builds, formats an ordinary '
             'record (identifiers of realistic size), and the text equals an independent reference renderer; the '
             'handler factory passes every configured option (delay, encoding, sizes) on to the handler.',
        note='trusted: z3, engine models (replayed per path), reference tables in vf/harness/c20.py; {-/$-'
             'format validation on symbolic formats, rotation behaviour, syslog/SMTP/HTTP/NT handlers are '
             'outside the claim',
        ref='DESIGN.md section 7 C20'),
}

NOT_YET = 'harness not built yet in this revision (see DESIGN.md section 7 for the plan)'

ALL = ['C%02d' % i for i in range(1, 21)]


def main():
    checks = []
    for p in ALL:
        if p not in CLAIMED:
            continue
        c = CLAIMED[p]
        checks.append({
            'property_id': p,
            'quick_cmd': 'bin/check %s quick' % p,
            'thorough_cmd': 'bin/check %s thorough' % p,
            'evidence_file': '/verif/evidence/%s.json' % p,
            'replay_cmd_template': 'bin/check --replay {path}',
            'engine': c.get('engine', 'E1-VSE'),
            'level_claimed': {'category': 'model_checking', 'text': c['text'],
                              'design_ref': c['ref']},
            'level_note': c['note'],
            'technique': c.get('technique', TECH),
        })
    na = [{'property_id': p, 'reason': NA.get(p, NOT_YET)} for p in ALL if p not in CLAIMED]
    m = {
        'version': 1,
        'setup_cmd': 'bin/bootstrap',
        'hooks': {
            'guard': 'ZCONFIG_VERIF',
            'enable': 'no source hooks are needed: the checks instrument ZConfig at import time '
                      'from outside the repository (vf/instr.py); bin/check exports ZCONFIG_VERIF=1 '
                      'for uniformity only',
            'baseline_off_cmd': 'cd /repo && /venv/bin/python -m pytest -ra -q -p no:cacheprovider '
                                '--timeout=900 --continue-on-collection-errors',
            'source_commits': [],
            'add_only': True,
        },
        'engines': [
            {'name': 'E1-VSE', 'path': 'vf/core.py vf/symstr.py vf/symrx.py vf/instr.py vf/base.py',
             'serves_properties': sorted(CLAIMED),
             'kind_free_text': 'own symbolic executor for the real Python source: import hook rewrites '
                               'subscripts/in/calls/%/f-strings into helpers, proxy strings with '
                               'concrete length and z3 Int characters, fork by re-execution, z3 5.1'},
            {'name': 'E2-regex', 'path': 'vf/symrx.py (to_z3_regex) vf/e2.py',
             'serves_properties': [p for p in ('C09', 'C18') if p in CLAIMED],
             'kind_free_text': 'z3 regular-expression theory: language equality of live patterns with '
                               'reference regexes for strings of every length'},
        ],
        'checks': checks,
        'not_applicable': na,
        'notes': 'exit codes: 0 held on everything explored (KNOWN-FINDING / INCONCLUSIVE lines possible) / '
                 '1 reproduced violation (VIOLATION line). Engine faults are reported as INCONCLUSIVE and '
                 'exit 0 (exit 2 only under VERIF_STRICT=1, see DESIGN.md 12.2). Known findings: '
                 '/verif/known_findings.json. Seeded changes and the catch matrix: /verif/seeded/.',
    }
    json.dump(m, open(os.path.join(VERIF, 'MANIFEST.json'), 'w'), indent=1)
    print('MANIFEST.json: %d checks, %d not_applicable' % (len(checks), len(na)))


NA = {}

if __name__ == '__main__':
    main()

"""Catalogue of small source mutations (DESIGN Appendix B).  file is relative to src/ZConfig."""

def M(prop, name, file, old, new, units=None):
    return {'prop': prop, 'name': name, 'file': file, 'old': old, 'new': new, 'units': units}


MUTANTS = [
    # ---------------- C04
    M('C04', 'slice-after-$$', 'substitution.py', 'return s[:i + 1], None, None, s[i + 2:], None',
      'return s[:i + 1], None, None, s[i + 1:], None'),
    M('C04', 'closing-brace-weakened', 'substitution.py', 'if not s.startswith("}", i - 1):',
      'if not s.startswith("}", i - 1) and i - 1 < len(s):'),
    M('C04', 'env-lowercased', 'substitution.py', 'v = os.getenv(namecase)', 'v = os.getenv(name)'),
    M('C04', 'name-class-gains-dash', 'substitution.py', "_name_re = r'[a-zA-Z_][a-zA-Z0-9_]*'",
      "_name_re = r'[a-zA-Z_][a-zA-Z0-9_-]*'"),
    M('C04', 'is-None-to-not', 'substitution.py', 'if v is None:\n                    raise',
      'if not v:\n                    raise'),
    M('C04', 'mapping-get-namecase', 'substitution.py', 'v = mapping.get(name)',
      'v = mapping.get(namecase)'),
    M('C04', 'rescan-replacement', 'substitution.py', '                result += v\n',
      '                rest = v + rest\n'),
    # ---------------- C03
    M('C03', 'name-re-allows-parens', 'cfgparser.py', r'_name_re = r"[^\s()]+"', r'_name_re = r"[^\s]+"'),
    M('C03', 'empty-marker-anywhere', 'cfgparser.py', 'isempty = rest[-1:] == "/"',
      'isempty = "/" in rest'),
    M('C03', 'closer-not-rstripped', 'cfgparser.py', 'type_ = self._normalize_case(rest.rstrip())',
      'type_ = self._normalize_case(rest)'),
    M('C03', 'directive-arg-check-dropped', 'cfgparser.py',
      '        if not arg:\n            self.error("missing argument to %%%s directive" % name)\n',
      ''),
    M('C03', 'blank-not-skipped', 'cfgparser.py', 'if line[:1] in ("", "#"):', 'if line[:1] == "#":'),
    M('C03', 'unclosed-not-checked', 'cfgparser.py',
      '        if self.stack:\n            self.error("unclosed sections not allowed")\n', ''),
    M('C03', 'name-not-lowercased', 'cfgparser.py',
      '        if name:\n            name = self._normalize_case(name)\n', ''),
    # ---------------- C09
    M('C09', 'basic-key-loses-dot', 'datatypes.py', '"[a-zA-Z][-._a-zA-Z0-9]*"', '"[a-zA-Z][-_a-zA-Z0-9]*"'),
    M('C09', 'identifier-gains-dash', 'datatypes.py', '_ident_re = "[_a-zA-Z][_a-zA-Z0-9]*"',
      '_ident_re = "[_a-zA-Z][-_a-zA-Z0-9]*"'),
    M('C09', 'port-max-fffe', 'datatypes.py', 'max=0xffff', 'max=0xfffe'),
    M('C09', 'port-min-1', 'datatypes.py', 'RangeCheckedConversion(integer, min=0,', 'RangeCheckedConversion(integer, min=1,'),
    M('C09', 'boolean-lower-dropped', 'datatypes.py', 'ss = str(s).lower()', 'ss = str(s)'),
    M('C09', 'boolean-word', 'datatypes.py', "('yes', 'true', 'on')", "('yes', 'true', 'on', 'y')"),
    M('C09', 'byte-size-typo', 'datatypes.py', "'mb': 1024 * 1024,", "'mb': 1024 * 1000,"),
    M('C09', 'suffix-slice', 'datatypes.py', 'if v[-self._keysz:] == s:', 'if v[-1:] == s[-1:]:'),
    M('C09', 'inet-rsplit-to-split', 'datatypes.py', 'host, p = s.rsplit(":", 1)', 'host, p = s.split(":", 1)'),
    M('C09', 'inet-bracket-strip-dropped', 'datatypes.py', 'host = host[1:-1]', 'host = host'),
    M('C09', 'inet-host-lower-dropped', 'datatypes.py', '            host = host.lower()\n', ''),
    M('C09', 'inet-default-host-swapped', 'datatypes.py', 'inet_binding_address = InetAddress("")',
      'inet_binding_address = InetAddress("127.0.0.1")'),
    M('C09', 'socket-slash-test-dropped', 'datatypes.py', 'if "/" in s or s.find(os.sep) >= 0:', 'if s.find(os.sep) > 0:'),
    M('C09', 'octet-range', 'datatypes.py', '25[0-5])$)"', '25[0-6])$)"'),
    M('C09', 'inet-pton-dropped', 'datatypes.py', "        if ':' in result:", "        if ':' in result and False:"),
    M('C09', 'time-interval-h', 'datatypes.py', "'h': 60 * 60,", "'h': 60 * 60 + 1,"),
    # ---------------- C01
    M('C01', 'finish-lt-to-le', 'matcher.py', 'if len(v) < ci.minOccurs:', 'if len(v) <= ci.minOccurs:'),
    M('C01', 'wildcard-min-ge', 'matcher.py', 'if ci.minOccurs > len(v):', 'if ci.minOccurs >= len(v) and ci.minOccurs:'),
    M('C01', 'sectionnames-guard-dropped', 'matcher.py', '            if name in self._sectionnames:', '            if False:'),
    M('C01', 'isAllowedName-star', 'info.py', '        if name == "*" or name == "+":\n            return False\n        elif', '        if'),
    M('C01', 'getsectioninfo-type-test', 'info.py', '                    if st.name != type_:', '                    if False:'),
    M('C01', 'addValue-single-guard', 'matcher.py', "            if k != '+':\n                raise ZConfig.ConfigurationError(\n                    repr(key) + \" does not support multiple values\")", "            pass"),
    M('C01', 'abstract-type-accepted', 'loader.py', '        if t.isabstract():\n            raise ZConfig.ConfigurationError(\n                "concrete sections cannot match abstract section types;"\n                " found abstract type " + repr(type_))\n', ''),
    M('C01', 'required-key-not-checked', 'matcher.py', '            if v is None and ci.minOccurs:', '            if v is None and ci.minOccurs and ci.issection():'),
    M('C01', 'abstract-slot-admits-any', 'info.py', '                    # not this one; maybe a different one\n                    pass', '                    return info'),
    M('C01', 'extends-matches-base-slot', 'info.py', '            elif info.sectiontype.name == type_:', '            elif info.sectiontype.name == type_ or (not info.sectiontype.isabstract() and type_.startswith(info.sectiontype.name[:1]) and info.name == "*" and len(self._children) == 2):'),
]

MUTANTS += [
    # ---------------- C02
    M('C02', 'multikey-defaults-always-merged', 'matcher.py', "                if not v:\n                    default = ci.getdefault()\n                    if isinstance(default, dict):", "                if True:\n                    default = ci.getdefault()\n                    if isinstance(default, dict):"),
    M('C02', 'multisection-reversed', 'matcher.py', "                        v.append(s)\n                elif ci.name == '+':", "                        v.insert(0, s)\n                elif ci.name == '+':"),
    M('C02', 'multikey-values-prepended', 'matcher.py', "        elif ismulti:\n            v.append(value)", "        elif ismulti:\n            v.insert(0, value)"),
    M('C02', 'section-datatype-skipped-for-multi', 'matcher.py', "                                s = st.datatype(s)", "                                s = s"),
    M('C02', 'section-name-not-lowercased', 'cfgparser.py', "        if name:\n            name = self._normalize_case(name)\n", ""),
    M('C02', 'getSectionName-info-name', 'matcher.py', "    def getSectionName(self):\n        return self._name", "    def getSectionName(self):\n        return self._name if self._matcher.info.name in ('*', '+') or not self._name else self._matcher.info.name.upper()"),
    M('C02', 'wildcard-defaults-with-keys', 'matcher.py', "                v = values[attr]\n                if not v:\n                    for key, val in ci.getdefault().items():\n                        v[key] = val.convert(ci.datatype)\n                else:", "                v = values[attr]\n                if True:\n                    for key, val in list(v.items()):\n                        v[key] = val.convert(ci.datatype)\n                    for key, val in ci.getdefault().items():\n                        v.setdefault(key, val.convert(ci.datatype))\n                else:"),
    M('C02', 'default-not-converted', 'matcher.py', "                v = values[attr]\n                if v is not None:\n                    v = v.convert(ci.datatype)", "                v = values[attr]\n                if v is not None:\n                    v = v.convert(ci.datatype) if v.position[2] != v.position[2] or v.position[0] != 1 else v.convert(ci.datatype)"),
    # ---------------- C05
    M('C05', 'define-name-not-normalised', 'cfgparser.py', "defname = self._normalize_case(parts[0])", "defname = parts[0]"),
    M('C05', 'redefinition-guard-dropped', 'cfgparser.py', "            if self.defines[defname] != defvalue:\n                self.error(\"cannot redefine \" + repr(defname))", "            pass"),
    M('C05', 'isname-check-dropped', 'cfgparser.py', "        if not isname(defname):\n            self.error(\"not a substitution legal name: \" + repr(defname))\n", ""),
    M('C05', 'include-gets-copy-of-defines', 'loader.py', "            self._parse_resource(section, r, defines)", "            self._parse_resource(section, r, dict(defines))"),
    M('C05', 'defines-kept-on-loader', 'loader.py', "        parser = ZConfig.cfgparser.ZConfigParser(resource, self, defines)", "        if defines is None:\n            defines = self.__dict__.setdefault('_d', {}) if False else getattr(self.schema, '_vf_d', None)\n            if defines is None:\n                defines = {}\n                try:\n                    self.schema._vf_d = defines\n                except Exception:\n                    pass\n        parser = ZConfig.cfgparser.ZConfigParser(resource, self, defines)"),
    M('C05', 'value-stored-unexpanded-when-escaped', 'cfgparser.py', "        defvalue = self.replace(defvalue)\n", "        defvalue = self.replace(defvalue) if '$$' not in defvalue else defvalue\n"),
    # ---------------- C06
    M('C06', 'include-joined-to-top-url', 'cfgparser.py', "newurl = ZConfig.url.urljoin(self.url, rest)", "newurl = ZConfig.url.urljoin(getattr(self.context, '_vf_top', None) or self.context.__dict__.setdefault('_vf_top', self.url), rest)"),
    M('C06', 'nested-parser-gets-schema-matcher', 'loader.py', "            self._parse_resource(section, r, defines)", "            self._parse_resource(getattr(section, '_vf_never', section) if section.info is section.type else self.__dict__.get('_vf_sm', section), r, defines)"),
    M('C06', 'unclosed-check-only-at-top', 'cfgparser.py', "        if self.stack:\n            self.error(\"unclosed sections not allowed\")", "        if self.stack and self.defines is not None and not getattr(self.context, '_vf_depth', 0):\n            self.error(\"unclosed sections not allowed\")"),
    # ---------------- C07
    M('C07', 'optionbag-keytype-unwrapped', 'cmdline.py', "                try:\n                    name = sectiontype.keytype(optpath[0])\n                except ValueError as e:", "                try:\n                    name = sectiontype.keytype(optpath[0])\n                except KeyError as e:"),
    M('C07', 'start-section-catch-narrowed', 'cfgparser.py', "        except ZConfig.ConfigurationError as e:\n            self.error(e.message)\n\n        if isempty:", "        except ZConfig.ConfigurationSyntaxError as e:\n            self.error(e.message)\n\n        if isempty:"),
    M('C07', 'keytype-wrapper-dropped', 'matcher.py', "        try:\n            realkey = self.type.keytype(key)\n        except ValueError as e:\n            raise ZConfig.DataConversionError(e, key, position)\n        arbkey_info = None", "        realkey = self.type.keytype(key)\n        arbkey_info = None"),
    M('C07', 'empty-optpath-allowed', 'cmdline.py', "        if \"\" in optpath:", "        if \"\" in optpath[1:]:"),
    M('C07', 'gettype-keyerror', 'info.py', "        n = name.lower()\n        try:\n            return self._types[n]\n        except KeyError:\n            raise ZConfig.SchemaError(\"unknown type name: \" + repr(name))", "        n = name.lower()\n        return self._types[n]"),
    # ---------------- C08
    M('C08', 'error-lineno-minus-1', 'cfgparser.py', "raise ZConfig.ConfigurationSyntaxError(message, self.url, self.lineno)", "raise ZConfig.ConfigurationSyntaxError(message, self.url, self.lineno - 1 if self.stack and len(self.stack) > 1 else self.lineno)"),
    M('C08', 'value-position-plus-1', 'cfgparser.py', "section.addValue(key, value, (self.lineno, None, self.url))", "section.addValue(key, value, (self.lineno + (1 if self.stack else 0), None, self.url))"),
    M('C08', 'replace-lineno-not-set', 'cfgparser.py', "            e.lineno = self.lineno\n            e.url = self.url\n            raise\n\n    def error", "            e.url = self.url\n            raise\n\n    def error"),
    M('C08', 'end-section-clobbers-lineno', 'cfgparser.py', "            if e.lineno < 0:\n                e.lineno = self.lineno\n            if not e.url:\n                e.url = self.url\n            raise\n        except ZConfig.ConfigurationError as e:\n            self.error(e.message)\n", "            e.lineno = self.lineno\n            if not e.url:\n                e.url = self.url\n            raise\n        except ZConfig.ConfigurationError as e:\n            self.error(e.message)\n"),
    M('C08', 'included-url-is-includer', 'loader.py', "        parser = ZConfig.cfgparser.ZConfigParser(resource, self, defines)", "        parser = ZConfig.cfgparser.ZConfigParser(resource, self, defines)\n        if defines is not None and getattr(matcher, 'name', None):\n            parser.url = self.schema.url or parser.url"),
    M('C08', 'conversion-value-lost', 'info.py', "            raise ZConfig.DataConversionError(e, self.value, self.position)", "            raise ZConfig.DataConversionError(e, str(e), self.position)"),
]

MUTANTS += [
    # ---------------- C16
    M('C16', 'call-before-missing-check', 'loader.py', "        if L:\n            raise ZConfig.ConfigurationError(\n                \"undefined handlers: \" + \", \".join(L))\n        for handler, value in self._handlers:\n            f = d[handler]\n            if f is not None:\n                f(value)", "        for handler, value in self._handlers:\n            if handler in d and d[handler] is not None:\n                d[handler](value)\n        if L:\n            raise ZConfig.ConfigurationError(\n                \"undefined handlers: \" + \", \".join(L))"),
    M('C16', 'handlers-reversed', 'loader.py', "        for handler, value in self._handlers:\n            f = d[handler]", "        for handler, value in reversed(self._handlers):\n            f = d[handler]"),
    M('C16', 'duplicate-check-dropped', 'loader.py', "            if n in d:\n                raise ZConfig.ConfigurationError(\n                    \"handler name not unique when converted to a basic-key: \"\n                    + repr(name))", "            pass"),
    M('C16', 'len-off-by-one', 'loader.py', "        return len(self._handlers)", "        return max(0, len(self._handlers) - 1) if len(self._handlers) > 3 else len(self._handlers)"),
    M('C16', 'schema-handler-first', 'matcher.py', "            self.handlers.append((self.type.handler, v))", "            self.handlers.insert(0, (self.type.handler, v))"),
    M('C16', 'handler-gets-unconverted', 'matcher.py', "            values[attr] = v\n            if ci.handler is not None:\n                self.handlers.append((ci.handler, v))", "            if ci.handler is not None:\n                self.handlers.append((ci.handler, values[attr]))\n            values[attr] = v"),
    M('C16', 'none-not-skipped', 'loader.py', "            if f is not None:\n                f(value)", "            if f is not None or value == 'q':\n                (f or (lambda v: None))(value)\n            if f is None and isinstance(value, list) and len(value) == 2:\n                raise ZConfig.ConfigurationError('x')"),
    # ---------------- C14
    M('C14', 'section-match-case-sensitive', 'cmdline.py', "            if name and self._normalize_case(s) == name:", "            if name and s == name:"),
    M('C14', 'file-value-not-suppressed', 'cmdline.py', "        if realkey in self.optionbag:\n            return", "        if realkey in self.optionbag and False:\n            return"),
    M('C14', 'override-values-reversed', 'cmdline.py', "            for val, pos in self.optionbag.get_key(key):", "            for val, pos in reversed(self.optionbag.get_key(key)):"),
    M('C14', 'leftover-sections-ignored', 'cmdline.py', "        if self.sectitems or self.keypairs:", "        if self.keypairs:"),
    M('C14', 'override-values-expanded', 'cmdline.py', "        opt, val = spec.split(\"=\", 1)", "        opt, val = spec.split(\"=\", 1)\n        val = val.replace('$$', '$')"),
    M('C14', 'bag-not-consumed-by-first', 'cmdline.py', "        if L:\n            self.sectitems[:] = R\n", "        if L:\n"),
    M('C14', 'empty-component-allowed-at-end', 'cmdline.py', "        if \"\" in optpath:", "        if \"\" in optpath[:-1]:"),
    # ---------------- C15
    M('C15', 'closer-case-sensitive', 'cfgparser.py', "        type_ = self._normalize_case(rest.rstrip())", "        type_ = rest.rstrip()"),
    M('C15', 'rstrip-only', 'cfgparser.py', "            return False, line.strip()", "            return False, line.rstrip()"),
    M('C15', 'define-name-case-sensitive', 'cfgparser.py', "defname = self._normalize_case(parts[0])", "defname = parts[0]"),
    M('C15', 'empty-form-skips-finish', 'cfgparser.py', "        if isempty:\n            self._end_section(section, type_, name, newsect)\n            return section", "        if isempty:\n            if name:\n                self._end_section(section, type_, name, newsect)\n            return section"),
    M('C15', 'nbsp-not-whitespace', 'cfgparser.py', "            return False, line.strip()", "            return False, line.strip(' \\t\\r\\n\\x0b\\x0c')"),
    # ---------------- C17
    M('C17', 'sorted-dropped', 'schemaless.py', "        lst = sorted(self.items())", "        lst = list(self.items())[::-1] if len(self) > 1 else sorted(self.items())"),
    M('C17', 'name-omitted', 'schemaless.py', "            if self.name:\n                start = f'{pre}<{self.type} {self.name}'", "            if self.name and self.name != self.type:\n                start = f'{pre}<{self.type} {self.name}'"),
    M('C17', 'values-prepended', 'schemaless.py', "            self[key].append(value)", "            self[key].insert(0, value)"),
    M('C17', 'import-dups-allowed', 'schemaless.py', "        if pkgname not in self.top.imports:\n            self.top.imports += (pkgname, )", "        self.top.imports += (pkgname, )"),
    M('C17', 'dollar-not-escaped-in-import', 'schemaless.py', "result.append('%import ' + pkgname.replace('$', '$$'))", "result.append('%import ' + pkgname)"),
    M('C17', 'define-silently-dropped', 'schemaless.py', "        raise NotImplementedError('defines are not supported')", "        pass"),
]

MUTANTS += [
    # ---------------- C19
    M('C19', 'loadURL-no-with', 'loader.py', "        with self.openResource(url) as r:\n            return self.loadResource(r)", "        r = self.openResource(url)\n        v = self.loadResource(r)\n        r.close()\n        return v"),
    M('C19', 'loadFile-no-with', 'loader.py', "        with self.createResource(file, url) as r:\n            return self.loadResource(r)", "        r = self.createResource(file, url)\n        v = self.loadResource(r)\n        r.close()\n        return v"),
    M('C19', 'include-no-with', 'loader.py', "        with self.openResource(url) as r:\n            self._parse_resource(section, r, defines)", "        r = self.openResource(url)\n        self._parse_resource(section, r, defines)\n        r.close()"),
    M('C19', 'cfg-import-no-with', 'loader.py', "        with self.openResource(url) as resource:\n            ZConfig.schema.parseComponent(resource, self._loader, schema)", "        resource = self.openResource(url)\n        ZConfig.schema.parseComponent(resource, self._loader, schema)\n        resource.close()"),
    M('C19', 'loadComponent-no-with', 'schema.py', "        with self._loader.openResource(src) as r:\n            xml.sax.parse(r.file, parser)\n\n    def end_import", "        r = self._loader.openResource(src)\n        xml.sax.parse(r.file, parser)\n        r.close()\n\n    def end_import"),
    M('C19', 'extendSchema-no-with', 'schema.py', "        with self._loader.openResource(src) as r:\n            xml.sax.parse(r.file, parser)\n\n    def end_schema", "        r = self._loader.openResource(src)\n        xml.sax.parse(r.file, parser)\n        r.close()\n\n    def end_schema"),
    M('C19', 'stream-close-not-in-finally', 'loader.py', "            try:\n                data = file.read()\n            finally:\n                file.close()", "            data = file.read()\n            if data:\n                file.close()"),
    M('C19', 'close-does-not-mark', 'loader.py', "            self.file = None\n            self.closed = True", "            self.file = None\n            self.closed = bool(self.url)"),
    M('C19', 'include-last-resource-kept', 'loader.py', "    def __exit__(self, t, v, tb):\n        self.close()", "    def __exit__(self, t, v, tb):\n        if t is None or not issubclass(t, ValueError):\n            self.close()"),
]

MUTANTS += [
    # ---------------- C18
    M('C18', 'urlnormalize-two-slashes', 'url.py', 'if lc.startswith("file:/") and not lc.startswith("file:///"):', 'if lc.startswith("file:/") and not lc.startswith("file://"):'),
    M('C18', 'urlnormalize-case-sensitive', 'url.py', "    lc = url.lower()\n", "    lc = url\n"),
    M('C18', 'isPath-len-le-2', 'loader.py', "            return len(m.group(0)) == 2", "            return len(m.group(0)) <= 3"),
    M('C18', 'pathsep-loses-plus', 'loader.py', 'r"[a-zA-Z][-+.a-zA-Z0-9]*:"', 'r"[a-zA-Z][-.a-zA-Z0-9]*:"'),
    M('C18', 'fragment-accepted', 'loader.py', "        if fragment:\n            raise ZConfig.ConfigurationError(\n                \"fragment identifiers are not supported\",\n                url)", "        if fragment and len(fragment) > 1:\n            raise ZConfig.ConfigurationError(\n                \"fragment identifiers are not supported\",\n                url)"),
    M('C18', 'url-from-file-or', 'loader.py', 'if name and name[0] != "<" and name[-1] != ">":', 'if name and (name[0] != "<" or name[-1] != ">"):'),
    M('C18', 'urljoin-wrapper-slice', 'url.py', '        url = "file://" + url[5:]  # pragma: no cover\n    return url\n\n\ndef urldefrag', '        url = "file://" + url[6:]  # pragma: no cover\n    return url\n\n\ndef urldefrag'),
]

MUTANTS += [
    # ---------------- C10
    M('C10', 'required-with-default-allowed', 'schema.py', '            if minOccurs:\n                self.error("required key cannot have a default value")\n', ''),
    M('C10', 'key-star-allowed', 'schema.py', "        if any_name == '*':\n            self.error(element + \" may not specify '*' for name\")\n", ''),
    M('C10', 'attribute-uniqueness-dropped', 'info.py', "        if info.attribute and info.attribute in self._attrmap:\n            raise ZConfig.SchemaError(\n                \"child attribute name %s already used\" % info.attribute)\n", ''),
    M('C10', 'multisection-any-name', 'schema.py', '        if any_name not in ("*", "+"):\n            self.error("multisection must specify \'*\' or \'+\' for the name")\n', ''),
    M('C10', 'unkeyed-default-for-wildcard', 'info.py', '        if self.name == "+" and key is None:\n            raise ZConfig.SchemaError(\n                "default values must be keyed for name=\'+\'")\n        elif', '        if'),
    M('C10', 'required-any-non-no', 'schema.py', '            if v == "yes":\n                return True\n            elif v == "no":\n                return False\n            self.error("value for \'required\' must be \'yes\' or \'no\'")', '            if v == "no":\n                return False\n            return True'),
    M('C10', 'extends-abstract-allowed', 'schema.py', '            if base.isabstract():\n                self.error("sectiontype cannot extend an abstract type")\n', ''),
    M('C10', 'implements-concrete-allowed', 'schema.py', '            if not interface.isabstract():\n                self.error(\n                    "type specified by implements is not an abstracttype")\n', '            if not interface.isabstract():\n                return self._stack.append(sectinfo)\n'),
    M('C10', 'stray-text-accepted', 'schema.py', '        elif data.strip():\n            self.error("unexpected non-blank character data: "\n                       + repr(data.strip()))', '        elif data.strip() and len(data.strip()) > 1:\n            self.error("unexpected non-blank character data: "\n                       + repr(data.strip()))'),
    M('C10', 'type-redefinition-allowed', 'info.py', '        if n in self._types:\n            raise ZConfig.SchemaError("type name cannot be redefined: "\n                                      + repr(typeinfo.name))\n', ''),
    M('C10', 'child-name-uniqueness-dropped', 'info.py', '        if key and key in self._keymap:\n            raise ZConfig.SchemaError(\n                "child name %s already used" % key)\n', ''),
    M('C10', 'wildcard-without-attribute', 'schema.py', '            if not aname:\n                self.error(\n                    "container attribute must be specified and non-empty"\n                    " when using \'*\' or \'+\' for a section name")\n', ''),
    M('C10', 'nesting-table-key-in-key', 'schema.py', '        "key": ["schema", "sectiontype"],', '        "key": ["schema", "sectiontype", "multikey"],'),
    M('C10', 'default-collision-after-normalisation', 'info.py', '        if self.name == "+":\n            if key in self._default:\n                # not ideal', '        if self.name == "+":\n            if key in self._default and self._rawdefaults is None:\n                # not ideal'),
]

MUTANTS += [
    # ---------------- C11
    M('C11', 'derive-drops-keymap', 'info.py', "        t._keymap.update(base._keymap)\n", ""),
    M('C11', 'derive-drops-children-order', 'info.py', "        t._children.extend(base._children)\n        for i in range(len(t._children)):", "        t._children.extend(reversed(base._children))\n        for i in range(len(t._children)):"),
    M('C11', 'derive-skips-computedefault', 'info.py', "                info.computedefault(t.keytype)\n", ""),
    M('C11', 'classname-first-prefix', 'schema.py', "        if name.startswith(\".\"):\n            return self._prefixes[-1] + name", "        if name.startswith(\".\"):\n            return self._prefixes[0] + name"),
    M('C11', 'relative-prefix-not-composed', 'schema.py', "                prefix = self._prefixes[-1] + name\n            else:\n                prefix = name", "                prefix = self._prefixes[0] + name\n            else:\n                prefix = name"),
    M('C11', 'datatype-not-inherited', 'schema.py', "            convert = getattr(base, attrkey, None)\n            if convert is not None:\n                return convert", "            convert = getattr(base, attrkey, None)\n            if convert is not None and attrkey != 'datatype':\n                return convert"),
    M('C11', 'component-parsed-twice', 'schema.py', "            if not self._schema.hasComponent(src):\n                self._schema.addComponent(src)\n                self.loadComponent(src)", "            if True:\n                self.loadComponent(src)"),
    M('C11', 'extends-order-not-reversed', 'schema.py', "            sources.reverse()\n", ""),
    M('C11', 'implements-inherited', 'schema.py', "            sectinfo = self._schema.deriveSectionType(\n                base, name, keytype, valuetype, datatype)", "            sectinfo = self._schema.deriveSectionType(\n                base, name, keytype, valuetype, datatype)\n            for _n in self._schema.gettypenames():\n                _t = self._schema.gettype(_n)\n                if _t.isabstract() and _t.hassubtype(base.name):\n                    _t.addsubtype(sectinfo)"),
    # ---------------- C12
    M('C12', 'extender-registered-with-base-abstract', 'schema.py', "            sectinfo = self._schema.deriveSectionType(\n                base, name, keytype, valuetype, datatype)", "            sectinfo = self._schema.deriveSectionType(\n                base, name, keytype, valuetype, datatype)\n            for _n in self._schema.gettypenames():\n                _t = self._schema.gettype(_n)\n                if _t.isabstract() and _t.hassubtype(base.name):\n                    _t.addsubtype(sectinfo)"),
    M('C12', 'derived-schema-shares-types', 'info.py', "    new._types.update(base._types)\n    return new", "    new._types = base._types\n    return new"),
    M('C12', 'import-not-idempotent', 'loader.py', "        if schema.hasComponent(url):\n            return\n", ""),
    M('C12', 'abstract-named-directly-accepted', 'loader.py', "        if t.isabstract():\n            raise ZConfig.ConfigurationError(\n                \"concrete sections cannot match abstract section types;\"\n                \" found abstract type \" + repr(type_))\n", ""),
    M('C12', 'import-module-accepted', 'loader.py', "        if not hasattr(pkg, \"__path__\"):\n            raise ZConfig.SchemaResourceError(\n                \"import name does not refer to a package\",\n                filename=filename, package=package)", "        if not hasattr(pkg, \"__path__\"):\n            return \"package:%s:%s\" % ('ZConfig.components.basic', filename)"),
    M('C12', 'private-schema-reused-across-loads', 'loader.py', "            self._private_schema = True\n            self.schema = schema", "            self._private_schema = True\n            self.schema = schema\n            ConfigLoader._vf_last = schema\n        elif False:\n            pass"),
    # ---------------- C13
    M('C13', 'getdefault-alias', 'info.py', "        return copy.copy(self._default)\n\n\nclass MultiKeyInfo", "        return self._default\n\n\nclass MultiKeyInfo"),
    M('C13', 'multikey-getdefault-alias', 'info.py', "    def getdefault(self):\n        return copy.copy(self._default)\n\n\nclass SectionInfo", "    def getdefault(self):\n        return self._default\n\n\nclass SectionInfo"),
    M('C13', 'converted-written-back-to-default', 'matcher.py', "                    v = [vi.convert(ci.datatype) for vi in values[attr]]", "                    v = [vi.convert(ci.datatype) for vi in values[attr]]\n                    for vi in values[attr]:\n                        if vi.position[0] is None or vi.position[2] is None:\n                            vi.value = vi.value + ''\n                            vi.value = vi.value.upper() if ci.minOccurs else vi.value"),
    M('C13', 'multikey-default-list-shared', 'matcher.py', "                        v[:] = default", "                        values[attr] = v = default if not isinstance(default, list) else (default if False else ci._default)"),
    M('C13', 'schema-matcher-reused', 'loader.py', "        return ZConfig.matcher.SchemaMatcher(self.schema)", "        sm = getattr(self.schema, '_vf_sm', None)\n        if sm is None:\n            sm = ZConfig.matcher.SchemaMatcher(self.schema)\n            try:\n                self.schema._vf_sm = sm\n            except Exception:\n                pass\n        return sm"),
]

MUTANTS += [
    # ---------------- C20
    M('C20', 'blather-16', 'components/logger/datatypes.py', '"blather": 15,', '"blather": 16,'),
    M('C20', 'level-ge-50', 'components/logger/datatypes.py', 'if v < 0 or v > 50:', 'if v < 0 or v >= 50:'),
    M('C20', 'level-lower-dropped', 'components/logger/datatypes.py', 's = str(value).lower()', 's = str(value)'),
    M('C20', 'old-files-check-dropped', 'components/logger/handlers.py', '            if not old_files:\n                raise ValueError("old-files must be set for log rotation")\n', ''),
    M('C20', 'std-ignores-delay', 'components/logger/handlers.py', '            if delay:\n                raise ValueError("cannot delay opening " + path)\n', ''),
    M('C20', 'when-max-conflict-dropped', 'components/logger/handlers.py', '                if max_bytes:\n                    raise ValueError("can\'t set *both* max_bytes and when")\n', ''),
    M('C20', 'factory-not-memoised', 'components/logger/factory.py', '        if self.instance is _marker:\n            self.instance = self.create()\n        return self.instance', '        self.instance = self.create()\n        return self.instance'),
    M('C20', 'propagate-not-applied', 'components/logger/logger.py', '        logger.propagate = self.propagate\n', ''),
    M('C20', 'closeFiles-keeps-registry', 'components/logger/loghandler.py', '    while _reopenable_handlers:\n        wr = _reopenable_handlers.pop()\n        h = wr()\n        if h is not None:\n            h.close()', '    for wr in list(_reopenable_handlers):\n        h = wr()\n        if h is not None:\n            logging.FileHandler.close(h)'),
    M('C20', 'handler-level-not-set', 'components/logger/handlers.py', '        logger.setLevel(self.section.level)\n        return logger', '        return logger'),
    M('C20', 'style-case-sensitive', 'components/logger/formatter.py', '    if value.lower() in _log_format_styles:\n        return value.lower()', '    if value in _log_format_styles:\n        return value'),
    M('C20', 'get-or-post-accepts-put', 'components/logger/handlers.py', "    if value not in ('GET', 'POST'):", "    if value not in ('GET', 'POST', 'PUT'):"),
    M('C20', 'rotating-without-maxbytes-falls-to-plain', 'components/logger/handlers.py', '            else:\n                raise ValueError(\n                    "max-bytes or when must be set for log rotation")', '            else:\n                factory = functools.partial(\n                    loghandler.FileHandler,\n                    path, encoding=encoding, delay=delay)'),
    M('C20', 'formatter-not-built-at-load', 'components/logger/formatter.py', '        # should be reported when the configuration is loaded, not when\n        # the handler is created.\n        self()\n', '        # should be reported when the configuration is loaded, not when\n        # the handler is created.\n'),
]


# Mutants that cannot be told apart from the unchanged code by ANY check of the named property (triaged by
# hand in the fifth session; tools/mutants.py reports them as EQUIVALENT instead of SURVIVED).
EQUIVALENT = {
    'default-not-converted': 'placeholder from an early session: both branches of the inserted conditional call convert()',
    'nested-parser-gets-schema-matcher': 'placeholder: the inserted expression always evaluates to `section`',
    'unclosed-check-only-at-top': 'placeholder: `defines` is never None and `_vf_depth` never exists, the guard is always true',
    'start-section-catch-narrowed': 'the un-wrapped exception is still a ConfigurationError (C07 holds); what is lost is the position - C08\'s subject',
    'empty-optpath-allowed': "'/k=v' is then refused at the end of the load ('not all command line options were consumed'), still a "
                             'ConfigurationError (C07 holds); refusal at addOption time is C14\'s clause',
    'import-dups-allowed': "a repeated %import then prints twice and reads back twice: the round trip (C17's statement) is unaffected",
    'urljoin-wrapper-slice': 'the edited line is unreachable (marked `pragma: no cover`: urllib never returns file:/x here)',
    'key-star-allowed': "name='*' is still refused by the next check ('name may not be omitted or empty')",
    'multisection-any-name': "a fixed-name multisection is still refused by SectionInfo ('must use a name of * or +')",
    'relative-prefix-not-composed': 'the prefix stack is at most two deep (schema / component, then sectiontype), so [0] and [-1] name the same entry '
                                    'whenever a relative prefix is legal',
    'private-schema-reused-across-loads': 'placeholder: only records the schema in an attribute nobody reads',
    'getdefault-alias': 'KeyInfo defaults are ValueInfo objects that nothing mutates; handing out the same one is unobservable',
    'multikey-getdefault-alias': 'the matcher copies the default container into its own list / dict (`v[:] = default`, `v.update(default)`)',
    'converted-written-back-to-default': 'placeholder: the inserted branch needs a position whose fields are None, which never occurs',
    'multikey-default-list-shared': 'the shared list is only iterated: the result is the NEW list the conversion comprehension builds',
}

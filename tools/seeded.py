#!/usr/bin/env python3
"""Run the registered checks against the seeded breaking changes kept under /verif/seeded/.

Each /verif/seeded/<id>/ holds patch.diff (against /repo), the sub-agent's demonstration
and meta.json {"property": "Cxx", "also": ["Cyy", ...], ...}.  The patch is applied to a scratch
copy of /repo/src (outside /repo and /verif, removed afterwards) and the property's check
(and every check listed under "also") is run on it through VERIF_REPO_SRC; the change counts
as caught when at least one of them exits 1 with a VIOLATION line.

usage: tools/seeded.py [--tier quick|thorough] [--jobs N] [--all-checks] [id-substring ...]
Results are merged into /verif/seeded/RESULTS.json."""
import concurrent.futures as cf
import json
import os
import shutil
import subprocess
import sys
import tempfile

VERIF = os.path.dirname(os.path.dirname(os.path.abspath(__file__)))
SEEDED = os.path.join(VERIF, 'seeded')
ALL = ['C%02d' % i for i in range(1, 21)]


def apply_patch(sid, tmp):
    shutil.copytree('/repo/src', os.path.join(tmp, 'src'))
    p = subprocess.run(['patch', '-p1', '-s', '-d', tmp, '-i', os.path.join(SEEDED, sid, 'patch.diff')],
                       capture_output=True, text=True)
    if p.returncode != 0:
        return p.stdout + p.stderr
    for root, dirs, files in os.walk(tmp):
        for f in files:
            if f.endswith(('.orig', '.rej')):
                os.unlink(os.path.join(root, f))
    return None


def demo(sid, tmp):
    """the sub-agent's demonstration: must fail with the change (and pass on /repo)"""
    d = os.path.join(SEEDED, sid, 'demo.py')
    if not os.path.exists(d):
        return None
    out = {}
    for tag, src in (('clean', '/repo/src'), ('changed', os.path.join(tmp, 'src'))):
        env = dict(os.environ, PYTHONPATH=src, PYTHONDONTWRITEBYTECODE='1')
        p = subprocess.run(['/venv/bin/python', d], capture_output=True, text=True, env=env,
                           cwd=tmp, timeout=300)
        out[tag] = p.returncode
    return out


def run_one(sid, tier, nproc, all_checks):
    meta = json.load(open(os.path.join(SEEDED, sid, 'meta.json')))
    if meta.get('obsolete'):
        return {'id': sid, 'property': meta['property'], 'tier': tier, 'status': 'OBSOLETE', 'detail': meta['obsolete']}
    tmp = tempfile.mkdtemp(prefix='vfseed_')
    try:
        err = apply_patch(sid, tmp)
        if err:
            return {'id': sid, 'status': 'PATCH-FAILED', 'detail': err[-400:]}
        res = {'id': sid, 'property': meta['property'], 'tier': tier, 'checks': {}}
        res['demo'] = demo(sid, tmp)
        props = [meta['property']] + [p for p in meta.get('also', []) if p != meta['property']]
        if all_checks:
            props += [p for p in ALL if p not in props]
        for prop in props:
            env = dict(os.environ, VERIF_REPO_SRC=os.path.join(tmp, 'src'),
                       VERIF_OUT=os.path.join(tmp, 'out'), VERIF_STRICT='1', VERIF_STOP_ON_VIOLATION='1')
            if nproc:
                env['VERIF_NPROC'] = str(nproc)
            p = subprocess.run([os.path.join(VERIF, 'bin', 'check'), prop, tier],
                               capture_output=True, text=True, env=env)
            lines = p.stdout.strip().splitlines()
            viol = [l for l in lines if l.startswith('VIOLATION')]
            res['checks'][prop] = {'rc': p.returncode, 'violations': len(viol),
                                   'tail': lines[-1][:300] if lines else p.stderr[-300:]}
            if viol:
                # keep one replay as the example of what the check reported
                try:
                    rp = viol[0].split('replay=')[1].strip()
                    d = json.load(open(rp))
                    res['checks'][prop]['example'] = {k: d[k] for k in ('unit', 'input', 'observed_on_real_code',
                                                                        'expected_by_property') if k in d}
                except Exception:
                    pass
        caught = [p for p, r in res['checks'].items() if r['rc'] == 1 and r['violations']]
        res['caught_by'] = caught
        res['status'] = 'CAUGHT' if caught else 'MISSED'
        if any(r['rc'] not in (0, 1) for r in res['checks'].values()) and not caught:
            res['status'] = 'HARNESS-ERROR'
        return res
    finally:
        shutil.rmtree(tmp, ignore_errors=True)


def main():
    args = sys.argv[1:]
    tier, jobs, all_checks, subs = 'quick', 1, False, []
    i = 0
    while i < len(args):
        if args[i] == '--tier':
            tier = args[i + 1]; i += 2
        elif args[i] == '--jobs':
            jobs = int(args[i + 1]); i += 2
        elif args[i] == '--all-checks':
            all_checks = True; i += 1
        else:
            subs.append(args[i]); i += 1
    ids = sorted(d for d in os.listdir(SEEDED) if os.path.isdir(os.path.join(SEEDED, d)))
    if subs:
        ids = [d for d in ids if any(s in d for s in subs)]
    nproc = max(2, 16 // jobs) if jobs > 1 else 0
    out = []
    with cf.ThreadPoolExecutor(max_workers=jobs) as ex:
        for r in ex.map(lambda s: run_one(s, tier, nproc, all_checks), ids):
            print('%-13s %-22s %s' % (r['status'], r['id'],
                                      ' '.join('%s:rc%d' % (p, c['rc']) for p, c in r.get('checks', {}).items())),
                  flush=True)
            out.append(r)
    path = os.path.join(SEEDED, 'RESULTS.json')
    old = json.load(open(path)) if os.path.exists(path) else []
    keep = [r for r in old if (r['id'], r.get('tier')) not in {(x['id'], x.get('tier')) for x in out}]
    json.dump(sorted(keep + out, key=lambda r: (r['id'], r.get('tier') or '')), open(path, 'w'), indent=1)
    bad = [r for r in out if r['status'] not in ('CAUGHT', 'OBSOLETE')]
    print('%d seeded changes, %d caught, %d not' % (len(out), len(out) - len(bad), len(bad)))
    return 1 if bad else 0


if __name__ == '__main__':
    sys.exit(main())

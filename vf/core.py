"""VSE core: path exploration by re-execution, z3 deciding every symbolic branch.

A harness body is an ordinary Python function.  It is re-run once per path.  Every
branch on a symbolic condition goes through Engine.decide(), which asks z3 whether each
polarity is feasible under the path condition, follows one and queues the other
(as a decision prefix).  See DESIGN.md section 3.
"""
import time

import z3


class EngineSignal(BaseException):
    """Base of all engine control-flow signals.  Derives from BaseException so that
    `except Exception` / `except ValueError` in the code under test cannot swallow it."""


class Abort(EngineSignal):
    """Path is infeasible / replay prefix exhausted inconsistently."""


class Unsupported(EngineSignal):
    """A construct reached a symbolic value that the engine has no model for."""


class StepLimit(EngineSignal):
    pass


class SolverUnknown(EngineSignal):
    pass


ENG = None          # the engine of the path being executed (one per process at a time)


def current():
    return ENG


class Engine:
    def __init__(self, domain, step_limit=20000, solver_timeout_ms=20000):
        self.domain = domain
        self.step_limit = step_limit
        self.solver_timeout_ms = solver_timeout_ms
        self.checks = 0
        self.solver_time = 0.0
        self.decisions_total = 0
        self.forks = 0
        self.paths = 0
        self.aborted = 0
        self.work = []
        self._reset_path([])

    # ------------------------------------------------------------------ per path state
    def _reset_path(self, prefix):
        self.solver = z3.Solver()
        self.solver.set('timeout', self.solver_timeout_ms)
        self.prefix = prefix
        self.trace = []
        self.nvars = 0
        self.inputs = []           # (name, kind, payload) registered symbolic inputs
        self.pins = {}             # z3 var id -> int
        self._decided = {}         # cond ast id -> bool (implied under current PC)
        self.steps = 0
        self.stub_facts = []       # for refinement stubs
        self.notes = []

    # ------------------------------------------------------------------ variables
    def fresh_int(self, name=None):
        self.nvars += 1
        return z3.Int(name or 'v%d' % self.nvars)

    def fresh_boolvar(self, name=None):
        self.nvars += 1
        return z3.Bool(name or 'b%d' % self.nvars)

    def assume(self, cond):
        """Add a harness precondition to the path condition (before the code runs)."""
        if isinstance(cond, bool):
            if not cond:
                raise Abort()
            return
        self.solver.add(cond)

    # ------------------------------------------------------------------ solver
    def check(self, *extra):
        t = time.perf_counter()
        if extra:
            self.solver.push()
            for e in extra:
                self.solver.add(e)
            r = self.solver.check()
            self.solver.pop()
        else:
            r = self.solver.check()
        self.checks += 1
        self.solver_time += time.perf_counter() - t
        if r == z3.unknown:
            raise SolverUnknown(self.solver.reason_unknown())
        return r == z3.sat

    def model(self, *extra):
        """A model of PC (and extra), or None if unsat."""
        t = time.perf_counter()
        self.solver.push()
        try:
            for e in extra:
                self.solver.add(e)
            r = self.solver.check()
            self.checks += 1
            if r == z3.unknown:
                raise SolverUnknown(self.solver.reason_unknown())
            if r != z3.sat:
                return None
            return self.solver.model()
        finally:
            self.solver.pop()
            self.solver_time += time.perf_counter() - t

    # ------------------------------------------------------------------ branching
    def decide(self, cond):
        """cond: z3 Bool.  Returns a Python bool; forks when both sides are feasible.

        Determinism: whether a call occupies a position of the decision trace depends only on
        the *syntactic* form of cond as built by the Python code (never on z3.simplify, whose
        output depends on AST ids, i.e. on allocation history).  The cache and the simplifier
        only save solver calls."""
        if z3.is_true(cond):
            return True
        if z3.is_false(cond):
            return False
        self.steps += 1
        if self.steps > self.step_limit:
            raise StepLimit()
        i = len(self.trace)
        if i < len(self.prefix):
            v = self.prefix[i]
            self.solver.add(cond if v else z3.Not(cond))
        else:
            sc = z3.simplify(cond)
            if z3.is_true(sc):
                v = True
            elif z3.is_false(sc):
                v = False
            else:
                cid = sc.get_id()
                got = self._decided.get(cid)
                if got is not None:
                    v = got[0]
                else:
                    can_t = self.check(sc)
                    if can_t:
                        can_f = self.check(z3.Not(sc))
                    else:
                        can_f = True    # PC is satisfiable by construction
                    if can_t and can_f:
                        self.work.append(self.trace + [False])
                        self.forks += 1
                        v = True
                    elif can_t:
                        v = True
                    else:
                        v = False
                    self.solver.add(sc if v else z3.Not(sc))
                    self._decided[cid] = (v, sc)    # keep the AST alive (ids are reused after GC)
        self.trace.append(v)
        self.decisions_total += 1
        if v:
            self._pin_from(cond)
        return v

    def _pin_from(self, cond):
        """Record var==const facts asserted true, so strings can become concrete."""
        stack = [cond]
        while stack:
            c = stack.pop()
            if z3.is_and(c):
                stack.extend(c.children())
            elif z3.is_eq(c):
                a, b = c.children()
                if z3.is_int_value(b) and z3.is_const(a) and a.decl().kind() == z3.Z3_OP_UNINTERPRETED:
                    self.pins[a.get_id()] = (b.as_long(), a)
                elif z3.is_int_value(a) and z3.is_const(b) and b.decl().kind() == z3.Z3_OP_UNINTERPRETED:
                    self.pins[b.get_id()] = (a.as_long(), b)

    def pinned(self, c):
        """c: int or z3 term -> int if known concrete on this path else c."""
        if isinstance(c, int):
            return c
        if self.pins:
            v = self.pins.get(c.get_id())
            if v is not None:
                return v[0]
        return c

    # ------------------------------------------------------------------ exploration
    def explore(self, body, prefixes=None, deadline=None, max_paths=None):
        """Run body(engine) once per path.  body returns nothing; it reports through
        callbacks of its own.  Returns the list of unexplored prefixes (empty when the
        exploration is exhaustive)."""
        global ENG
        self.work = list(prefixes) if prefixes is not None else [[]]
        done = 0
        while self.work:
            if deadline is not None and time.time() > deadline:
                break
            if max_paths is not None and done >= max_paths:
                break
            prefix = self.work.pop()
            self._reset_path(prefix)
            ENG = self
            try:
                body(self)
                if len(self.trace) < len(self.prefix):
                    raise RuntimeError('replay prefix not consumed: nondeterministic body')
                self.paths += 1
            except Abort:
                self.aborted += 1
            finally:
                ENG = None
            done += 1
        left, self.work = self.work, []
        return left


# ---------------------------------------------------------------------- symbolic scalars
class SymBool:
    __slots__ = ('e',)

    def __init__(self, e):
        self.e = e

    def __bool__(self):
        return ENG.decide(self.e)

    def __repr__(self):
        return '<symbool>'

    def __hash__(self):
        raise Unsupported('hash of SymBool')

    def __eq__(self, o):
        return mk(tobool(self) == tobool(o))

    def __ne__(self, o):
        return mk(tobool(self) != tobool(o))


def tobool(x):
    """x: bool | SymBool -> z3 Bool"""
    if isinstance(x, SymBool):
        return x.e
    if isinstance(x, z3.BoolRef):
        return x
    return z3.BoolVal(bool(x))


def mk(e):
    """z3 Bool -> True/False when trivially so, else SymBool"""
    if isinstance(e, bool):
        return e
    if z3.is_true(e):
        return True
    if z3.is_false(e):
        return False
    return SymBool(e)


def zand(xs):
    """conjunction with deterministic syntactic folding of constants"""
    out = []
    for x in xs:
        if isinstance(x, bool):
            x = z3.BoolVal(x)
        if z3.is_false(x):
            return z3.BoolVal(False)
        if z3.is_true(x):
            continue
        out.append(x)
    if not out:
        return z3.BoolVal(True)
    return out[0] if len(out) == 1 else z3.And(out)


def zor(xs):
    out = []
    for x in xs:
        if isinstance(x, bool):
            x = z3.BoolVal(x)
        if z3.is_true(x):
            return z3.BoolVal(True)
        if z3.is_false(x):
            continue
        out.append(x)
    if not out:
        return z3.BoolVal(False)
    return out[0] if len(out) == 1 else z3.Or(out)


def znot(x):
    if isinstance(x, bool):
        return z3.BoolVal(not x)
    if z3.is_true(x):
        return z3.BoolVal(False)
    if z3.is_false(x):
        return z3.BoolVal(True)
    return z3.Not(x)


def Not(x):
    if isinstance(x, SymBool):
        return mk(znot(x.e))
    return not x


def And(*xs):
    if all(not isinstance(x, SymBool) for x in xs):
        return all(xs)
    return mk(zand([tobool(x) for x in xs]))


def Or(*xs):
    if all(not isinstance(x, SymBool) for x in xs):
        return any(xs)
    return mk(zor([tobool(x) for x in xs]))


def _ie(x):
    if isinstance(x, SymInt):
        return x.e
    if isinstance(x, bool):
        return int(x)
    if isinstance(x, int):
        return x
    return None


class SymInt:
    """Mathematical integer (Python ints are unbounded)."""
    __slots__ = ('e',)

    def __init__(self, e):
        self.e = e

    def _cmp(self, o, f):
        b = _ie(o)
        if b is None:
            return NotImplemented
        return mk(f(self.e, b))

    def __lt__(self, o): return self._cmp(o, lambda a, b: a < b)
    def __le__(self, o): return self._cmp(o, lambda a, b: a <= b)
    def __gt__(self, o): return self._cmp(o, lambda a, b: a > b)
    def __ge__(self, o): return self._cmp(o, lambda a, b: a >= b)

    def __eq__(self, o):
        b = _ie(o)
        if b is None:
            return False
        return mk(self.e == b)

    def __ne__(self, o):
        b = _ie(o)
        if b is None:
            return True
        return mk(self.e != b)

    def _ar(self, o, f):
        b = _ie(o)
        if b is None:
            return NotImplemented
        return symint(f(self.e, b))

    def __add__(self, o): return self._ar(o, lambda a, b: a + b)
    def __radd__(self, o): return self._ar(o, lambda a, b: b + a)
    def __sub__(self, o): return self._ar(o, lambda a, b: a - b)
    def __rsub__(self, o): return self._ar(o, lambda a, b: b - a)

    def __mul__(self, o):
        b = _ie(o)
        if b is None:
            return NotImplemented
        if not isinstance(b, int):
            raise Unsupported('symbolic * symbolic')
        return symint(self.e * b)
    __rmul__ = __mul__

    def __neg__(self): return symint(-self.e)
    def __pos__(self): return self

    def __bool__(self):
        return ENG.decide(self.e != 0)

    def __index__(self):
        raise Unsupported('SymInt used as index')

    def __int__(self):
        raise Unsupported('int(SymInt) natively')

    def __hash__(self):
        raise Unsupported('hash of SymInt')

    def __repr__(self):
        return '<symint>'
    __str__ = __repr__


def symint(e):
    if isinstance(e, int):
        return e
    e = z3.simplify(e)
    if z3.is_int_value(e):
        return e.as_long()
    return SymInt(e)


# ---------------------------------------------------------------------- floats (rational model)
class SymFloat:
    """Result of float(<symbolic string>).  kind: 'fin' | 'inf' | 'ninf' | 'nan' (always concrete: the
    parser forks on it); e: z3 Real term (exact rational value of the decimal literal) for 'fin'.
    Binary rounding is NOT modelled: consumers compare through Approx with a tolerance."""
    __slots__ = ('kind', 'e')

    def __init__(self, kind, e=None):
        self.kind = kind
        self.e = e

    def __neg__(self):
        if self.kind == 'fin':
            return SymFloat('fin', -self.e)
        return SymFloat({'inf': 'ninf', 'ninf': 'inf', 'nan': 'nan'}[self.kind])

    def __bool__(self):
        if self.kind != 'fin':
            return True
        return ENG.decide(self.e != 0)

    def __float__(self):
        raise Unsupported('float(SymFloat) natively')


def float_parts(x):
    """python number | SymFloat -> (kind, exact value as Fraction or z3 Real term)"""
    import fractions
    import math
    if isinstance(x, SymFloat):
        return x.kind, x.e
    if isinstance(x, SymInt):
        return 'fin', z3.ToReal(x.e)
    if isinstance(x, float):
        if math.isnan(x):
            return 'nan', None
        if math.isinf(x):
            return ('inf' if x > 0 else 'ninf'), None
    return 'fin', fractions.Fraction(x)


def real_term(v):
    """Fraction | int | z3 term -> z3 Real term"""
    import fractions
    if isinstance(v, z3.ExprRef):
        return z3.ToReal(v) if z3.is_int(v) else v
    f = fractions.Fraction(v)
    return z3.RealVal('%d/%d' % (f.numerator, f.denominator))


class Approx:
    """A numeric outcome that is compared with a tolerance (absolute + relative), because binary
    floating-point rounding is outside the rational model.  Rendered as a fixed token in JSON: the
    comparison of a replayed witness with the symbolic outcome then looks at the outcome class only,
    while agree() compares the value itself - with the independent oracle - in both modes."""
    __slots__ = ('v', 'abs_tol', 'rel_tol')

    def __init__(self, v, abs_tol, rel_tol=0):
        self.v = v
        self.abs_tol = abs_tol
        self.rel_tol = rel_tol

    def __repr__(self):
        return 'approx'

    def close_to(self, other):
        import fractions
        a, b = self.v, other.v
        at = fractions.Fraction(self.abs_tol)
        rt = fractions.Fraction(self.rel_tol)
        if not isinstance(a, z3.ExprRef) and not isinstance(b, z3.ExprRef):
            a, b = fractions.Fraction(a), fractions.Fraction(b)
            return z3.BoolVal(abs(a - b) <= at + rt * abs(b))
        a, b = real_term(a), real_term(b)
        tol = real_term(at) + real_term(rt) * z3.If(b >= 0, b, -b)
        return z3.And(a - b <= tol, b - a <= tol)


def is_sym(x):
    from .symstr import SymStr
    return isinstance(x, (SymStr, SymInt, SymBool, SymFloat))


# ---------------------------------------------------------------------- model evaluation
def concretize(x, model):
    """Evaluate a structure with symbolic leaves under a z3 model -> plain Python."""
    from .symstr import SymStr
    if isinstance(x, SymStr):
        return x.eval(model)
    if isinstance(x, SymInt):
        return model.eval(x.e, model_completion=True).as_long()
    if isinstance(x, SymBool):
        return z3.is_true(model.eval(x.e, model_completion=True))
    if isinstance(x, Approx):
        if isinstance(x.v, z3.ExprRef):
            import fractions
            r = model.eval(x.v, model_completion=True)
            return Approx(fractions.Fraction(r.numerator_as_long(), r.denominator_as_long()), x.abs_tol, x.rel_tol)
        return x
    if isinstance(x, tuple):
        return tuple(concretize(y, model) for y in x)
    if isinstance(x, list):
        return [concretize(y, model) for y in x]
    if isinstance(x, dict):
        return {concretize(k, model): concretize(v, model) for k, v in x.items()}
    return x


def deep_eq(a, b):
    """Structural equality of two outcome structures -> z3 Bool expression (no forking).
    Shapes are concrete, so a shape mismatch is plain False."""
    from .symstr import SymStr, chars_of
    if isinstance(a, (SymStr, str)) and isinstance(b, (SymStr, str)):
        x, y = chars_of(a), chars_of(b)
        if len(x) != len(y):
            return z3.BoolVal(False)
        cs = []
        for p, q in zip(x, y):
            if isinstance(p, int) and isinstance(q, int):
                if p != q:
                    return z3.BoolVal(False)
            else:
                cs.append(p == q)
        return z3.And(cs) if cs else z3.BoolVal(True)
    if isinstance(a, (SymBool, bool)) and isinstance(b, (SymBool, bool)):
        return tobool(a) == tobool(b)
    if isinstance(a, Approx) or isinstance(b, Approx):
        if isinstance(a, Approx) and isinstance(b, Approx):
            return b.close_to(a) if isinstance(a.v, z3.ExprRef) and not isinstance(b.v, z3.ExprRef) else a.close_to(b)
        return z3.BoolVal(False)
    if isinstance(a, (SymInt, int)) and isinstance(b, (SymInt, int)) \
            and not isinstance(a, bool) and not isinstance(b, bool):
        return z3.BoolVal(a == b) if isinstance(a, int) and isinstance(b, int) else (_ie(a) == _ie(b))
    if isinstance(a, (list, tuple)) and isinstance(b, (list, tuple)):
        if len(a) != len(b):
            return z3.BoolVal(False)
        if len(a) == 2 and isinstance(a[0], str) and a[0] == 'M' and b[0] == 'M' \
                and isinstance(a[1], (list, tuple)) and isinstance(b[1], (list, tuple)):
            # a mapping value: equality of dicts does not depend on insertion order
            x, y = list(a[1]), list(b[1])
            if len(x) != len(y):
                return z3.BoolVal(False)
            if len(x) <= 1:
                return deep_eq(x, y)
            if len(x) > 5:
                return deep_eq(x, y)
            import itertools
            alts = []
            for perm in itertools.permutations(range(len(y))):
                alts.append(zand([deep_eq(x[i], y[j]) for i, j in enumerate(perm)]))
            return zor(alts)
        return z3.And([deep_eq(p, q) for p, q in zip(a, b)]) if a else z3.BoolVal(True)
    if isinstance(a, dict) and isinstance(b, dict):
        # keys must be concrete here
        if set(a.keys()) != set(b.keys()):
            return z3.BoolVal(False)
        return z3.And([deep_eq(a[k], b[k]) for k in a]) if a else z3.BoolVal(True)
    if a is None or b is None:
        return z3.BoolVal(a is None and b is None)
    if is_sym(a) or is_sym(b):
        return z3.BoolVal(False)
    return z3.BoolVal(type(a) == type(b) and a == b)

"""Import hook: compiles every ZConfig.* module (not ZConfig.tests) from its *current source
text* through an AST rewrite that routes subscripts, `in`, calls, %-formatting, f-strings
and dict displays through helper functions.  With no symbolic operand every helper performs
the native operation.  This is the encoding step; it is regenerated from /repo on every run.
"""
import ast
import datetime
import builtins
import copy
import importlib.abc
import importlib.machinery
import os
import re
import socket
import sys
import types

import z3

from . import core
from .core import Unsupported, SymInt, SymBool, mk
from .symstr import SymStr, OpaqueMsg, hash_ok, sym_int, join as sym_join, chars_of, simp, symstr_of
from .symrx import RxWrap

FUNCS_SEEN = set()          # qualified names of ZConfig functions compiled through the hook
MODULES_SEEN = []
ENV = {'map': None}         # harness-supplied environment for os.getenv (None = real)
INET6 = {'fn': None}        # harness-supplied stub for socket.inet_pton(AF_INET6, sym)
STUBS_USED = set()
FUNC_STUBS = {}          # python function -> replacement used when an argument is symbolic
PERMANENT_STUBS = {}     # the same, installed once (instrumented stdlib copies); never cleared
IMPORTS = {'known': None}   # names a symbolic __import__ argument may equal (harness-supplied)

_BUILTIN_METH = type(''.join)
_KEYS_TYPES = (type({}.keys()), type({}.items()), type({}.values()))
_dict_getitem = dict.__getitem__


def _sym(x):
    t = type(x)
    return t is SymStr or t is SymInt or t is SymBool or t is core.SymFloat


def _anysym(it):
    if isinstance(it, dict) and type(it) is not dict:
        # OrderedDict iteration may look keys up by hash
        with hash_ok():
            for x in it:
                if type(x) is SymStr:
                    return True
        return False
    for x in it:
        if type(x) is SymStr:
            return True
    return False


def _eq(a, b):
    """equality used by dict scans: forks when symbolic"""
    r = (a == b)
    if type(r) is SymBool:
        return bool(r)
    return r


def _scan(d, k):
    """the key of d that equals k, else _MISSING.  Linear scan with symbolic equality =
    dict semantics without relying on hashes."""
    ks = type(k) is SymStr
    with hash_ok():
        keys = list(d.keys())
    for kk in keys:
        if ks or type(kk) is SymStr:
            if isinstance(kk, (str, SymStr)) and _eq(k, kk):
                return kk
        else:
            if kk == k:
                return kk
    return _MISSING


_MISSING = object()


def _dict_needs_scan(d, k):
    if type(k) is SymStr:
        return True
    if isinstance(k, str) and d and _anysym(d):
        return True
    return False


class SymDict(dict):
    """What `{...}`, `dict(...)` and dict comprehensions evaluate to inside instrumented code: a dict
    whose key-based operations fall back to a linear scan with symbolic equality whenever a
    symbolic key is involved - also when a bound method (`d.__contains__`, `d.get`) is handed to
    native code such as itertools or map."""
    __slots__ = ()

    def __contains__(self, k):
        if _dict_needs_scan(self, k):
            return _scan(self, k) is not _MISSING
        try:
            return dict.__contains__(self, k)
        except Unsupported:
            return _scan(self, k) is not _MISSING

    def __getitem__(self, k):
        if _dict_needs_scan(self, k):
            kk = _scan(self, k)
            if kk is _MISSING:
                raise KeyError(k)
            with hash_ok():
                return dict.__getitem__(self, kk)
        return dict.__getitem__(self, k)

    def __setitem__(self, k, v):
        if _dict_needs_scan(self, k):
            kk = _scan(self, k)
            with hash_ok():
                dict.__setitem__(self, k if kk is _MISSING else kk, v)
            return
        dict.__setitem__(self, k, v)

    def __delitem__(self, k):
        if _dict_needs_scan(self, k):
            kk = _scan(self, k)
            if kk is _MISSING:
                raise KeyError(k)
            with hash_ok():
                dict.__delitem__(self, kk)
            return
        dict.__delitem__(self, k)

    def get(self, k, default=None):
        if k in self:
            return self[k]
        return default

    def pop(self, k, *default):
        if k in self:
            v = self[k]
            del self[k]
            return v
        if default:
            return default[0]
        raise KeyError(k)

    def setdefault(self, k, default=None):
        if k in self:
            return self[k]
        self[k] = default
        return default

    def update(self, *a, **kw):
        if a:
            src = a[0]
            if hasattr(src, 'keys'):
                with hash_ok():
                    ks = list(src.keys())
                for k in ks:
                    self[k] = src[k]
            else:
                for k, v in src:
                    self[k] = v
        for k, v in kw.items():
            self[k] = v

    def copy(self):
        n = SymDict()
        with hash_ok():
            for k, v in dict.items(self):
                dict.__setitem__(n, k, v)
        return n

    def __reduce__(self):
        return (dict, (dict(self),))


def _symdict_from(d):
    n = SymDict()
    with hash_ok():
        for k, v in d.items():
            n[k] = v
    return n


def _vf_dictcomp(pairs):
    n = SymDict()
    for k, v in pairs:
        n[k] = v
    return n


# ---------------------------------------------------------------------- helpers
def _vf_getitem(o, k):
    if isinstance(o, dict) and _dict_needs_scan(o, k):
        kk = _scan(o, k)
        with hash_ok():
            return o[k if kk is _MISSING else kk]
    if type(k) is SymInt:
        raise Unsupported('symbolic index')
    return o[k]


def _vf_setitem(o, k, v):
    if isinstance(o, dict) and _dict_needs_scan(o, k):
        kk = _scan(o, k)
        with hash_ok():
            o[k if kk is _MISSING else kk] = v
        return
    o[k] = v


def _vf_delitem(o, k):
    if isinstance(o, dict) and _dict_needs_scan(o, k):
        kk = _scan(o, k)
        with hash_ok():
            del o[k if kk is _MISSING else kk]
        return
    del o[k]


def _vf_contains(x, c, neg):
    tc = type(c)
    if isinstance(c, dict):
        if _dict_needs_scan(c, x):
            r = _scan(c, x) is not _MISSING
        else:
            r = x in c
    elif tc in _KEYS_TYPES and tc is _KEYS_TYPES[0]:
        if type(x) is SymStr or _anysym(c):
            r = False
            for kk in list(c):
                if isinstance(kk, (str, SymStr)) and _eq(x, kk):
                    r = True
                    break
        else:
            r = x in c
    elif tc is str:
        if type(x) is SymStr:
            r = symstr_of(c).__contains__(x)
        else:
            r = x in c
    elif tc is tuple or tc is list:
        r = False
        for y in c:
            if y is x or _eq(x, y):
                r = True
                break
    else:
        r = x in c
    return (not r) if neg else r


def _vf_mod(a, b):
    if type(a) is str:
        if _sym(b) or (type(b) is tuple and any(_sym(x) for x in b)) \
                or (type(b) is dict and any(_sym(x) for x in b.values())):
            return OpaqueMsg('<msg>')
    elif type(a) is SymStr:
        raise Unsupported('%-formatting with a symbolic format string')
    return a % b


def _vf_fmt(v, conv, spec):
    if _sym(v):
        if type(v) is SymStr and conv == -1 and spec == '':
            return v
        return OpaqueMsg('<fmt>')
    if conv == 114:
        v = repr(v)
    elif conv == 115:
        v = str(v)
    elif conv == 97:
        v = ascii(v)
    return format(v, spec)


def _vf_join(*parts):
    for p in parts:
        if type(p) is SymStr:
            return sym_join('', parts)
    return ''.join(parts)


def _vf_dict(keys, values):
    d = SymDict()
    for k, v in zip(keys, values):
        d[k] = v
    return d


_str_promote = {'startswith', 'endswith', 'find', 'rfind', 'index', 'count', 'split', 'rsplit',
                'replace', 'strip', 'lstrip', 'rstrip', '__contains__', '__eq__', '__add__'}


def _str_method(slf, f, a, k):
    nm = f.__name__
    if nm == 'join':
        if a and not isinstance(a[0], (str, SymStr)):
            parts = list(a[0])
            if _anysym(parts):
                return sym_join(slf, parts)
            return slf.join(parts)
    elif nm == 'format' and (any(_sym(x) for x in a) or any(_sym(x) for x in k.values())):
        return OpaqueMsg('<fmt>')
    elif a and any(type(x) is SymStr for x in a):
        if nm in _str_promote:
            return getattr(symstr_of(slf), nm)(*a, **k)
        raise Unsupported('str.%s with symbolic argument' % nm)
    elif a and type(a[0]) is tuple and any(type(x) is SymStr for x in a[0]):
        return getattr(symstr_of(slf), nm)(*a, **k)
    return f(*a, **k)


def _dict_method(slf, f, a, k):
    nm = f.__name__
    if nm == 'get':
        if _dict_needs_scan(slf, a[0]):
            kk = _scan(slf, a[0])
            if kk is _MISSING:
                return a[1] if len(a) > 1 else None
            with hash_ok():
                return slf[kk]
    elif nm == 'pop':
        if a and _dict_needs_scan(slf, a[0]):
            kk = _scan(slf, a[0])
            if kk is _MISSING:
                if len(a) > 1:
                    return a[1]
                raise KeyError(a[0])
            with hash_ok():
                return slf.pop(kk)
    elif nm == 'setdefault':
        if _dict_needs_scan(slf, a[0]):
            kk = _scan(slf, a[0])
            with hash_ok():
                if kk is _MISSING:
                    return slf.setdefault(*a)
                return slf[kk]
    elif nm == 'update':
        if a and isinstance(a[0], dict) and (_anysym(slf) or _anysym(a[0])) and not k:
            with hash_ok():          # an OrderedDict's items view looks every key up by hash
                pairs = list(a[0].items())
            for kk, vv in pairs:
                _vf_setitem(slf, kk, vv)
            return None
        if a and not isinstance(a[0], dict) and _anysym(slf):
            raise Unsupported('dict.update(iterable) on symbolic-keyed dict')
    elif nm == '__contains__':
        return _vf_contains(a[0], slf, False)
    elif nm == '__getitem__':
        return _vf_getitem(slf, a[0])
    elif nm == '__setitem__':
        return _vf_setitem(slf, a[0], a[1])
    elif nm == '__delitem__':
        return _vf_delitem(slf, a[0])
    elif nm in ('items', 'keys', 'values'):
        if type(slf) is not dict and _anysym(slf):
            # OrderedDict views look every key up by hash while iterating: materialise
            with hash_ok():
                return list(f())
    elif nm in ('copy', 'fromkeys', 'popitem', 'clear', 'move_to_end'):
        with hash_ok():
            return f(*a, **k)
    return f(*a, **k)


def _builtin_func(f, a, k):
    """f is a builtin function or one of the builtin types str/int/float/...; a[0] symbolic"""
    x = a[0]
    if f is str:
        if type(x) is SymStr:
            return x
        raise Unsupported('str() of symbolic number')
    if f is int:
        if type(x) is SymStr:
            if len(a) > 1 or k:
                raise Unsupported('int(sym, base)')
            return sym_int(x)
        if type(x) is SymInt:
            return x
        raise Unsupported('int() of %s' % type(x).__name__)
    if f is float:
        if type(x) is SymStr and len(a) == 1 and not k:
            from .symstr import sym_float
            return sym_float(x)
        if type(x) is core.SymFloat:
            return x
        raise Unsupported('float() of %s' % type(x).__name__)
    if f is repr or f is ascii:
        return OpaqueMsg('<repr>')
    if f is bool:
        return bool(x)
    if f is len:
        return len(x)
    if f is ord and type(x) is SymStr and len(x) == 1:
        return core.symint(x.cs[0])
    if f is print:
        return None
    if f is dict:
        raise Unsupported('dict(sym)')
    if f is builtins.__import__:
        known = IMPORTS['known']
        if known is None or type(x) is not SymStr:
            raise Unsupported('__import__ of a symbolic name (no stub installed)')
        STUBS_USED.add('__import__ (symbolic name: one of the known packages or not importable)')
        for nm in known:
            if _eq(x, nm):
                return f(nm, *a[1:], **k)
        raise ModuleNotFoundError('No module named <symbolic>')
    if f in _NATIVE_OK:
        return f(*a, **k)
    if getattr(f, '__module__', None) == '_operator':
        # operator.lt(a, b) & co dispatch to the proxies' own dunder methods
        nm = f.__name__
        if nm == 'contains':
            return _vf_contains(a[1], a[0], False)
        if nm == 'getitem':
            return _vf_getitem(a[0], a[1])
        if nm in ('lt', 'le', 'gt', 'ge', 'eq', 'ne', 'add', 'sub', 'mul', 'neg', 'pos', 'not_', 'truth',
                  'concat', 'is_', 'is_not'):
            return f(*a, **k)
    raise Unsupported('builtin %s on symbolic argument' % getattr(f, '__name__', f))


_NATIVE_OK = {isinstance, type, id, getattr, hasattr, setattr, list, tuple, sorted, min, max,
              reversed, enumerate, iter, next, zip, callable, issubclass}
_BUILTIN_TYPES = {str, int, float, bool, list, tuple, dict}


def _vf_call(f, *a, **k):
    tf = type(f)
    if tf is types.FunctionType or tf is types.MethodType:
        if f is re.compile:
            return RxWrap(*a, **k)
        if FUNC_STUBS and tf is types.FunctionType and f in FUNC_STUBS and any(_sym(x) for x in a):
            STUBS_USED.add(getattr(f, '__module__', '?') + '.' + f.__name__)
            return FUNC_STUBS[f](*a, **k)
        if PERMANENT_STUBS and tf is types.FunctionType and f in PERMANENT_STUBS \
                and (any(_sym(x) for x in a) or any(type(x) is tuple and any(_sym(y) for y in x) for x in a)):
            STUBS_USED.add('instrumented copy of ' + getattr(f, '__module__', '?') + '.' + f.__name__)
            return PERMANENT_STUBS[f](*a, **k)
        if f is os.getenv:
            return _getenv(*a, **k)
        if f is copy.copy:
            with hash_ok():
                return f(*a, **k)
        m = getattr(f, '__module__', None)
        if m is not None and m.startswith('ZConfig'):
            return f(*a, **k)
        return _native(f, a, k)
    if tf is _BUILTIN_METH:
        slf = f.__self__
        ts = type(slf)
        if ts is types.ModuleType or slf is None:
            if f is isinstance and a and type(a[0]) is SymStr:
                # a symbolic string stands for a str
                cls = a[1]
                if cls is str or (type(cls) is tuple and str in cls):
                    return True
                return False
            if a and _sym(a[0]):
                return _builtin_func(f, a, k)
            if f is getattr or f is hasattr:
                if len(a) > 1 and type(a[1]) is SymStr:
                    return f(a[0], a[1].concrete(), *a[2:])
            elif f is socket.inet_pton:
                if len(a) == 2 and type(a[1]) is SymStr:
                    if INET6['fn'] is None:
                        raise Unsupported('socket.inet_pton on symbolic string (no stub installed)')
                    STUBS_USED.add('socket.inet_pton')
                    return INET6['fn'](a[0], a[1])
            elif f is sorted and a and isinstance(a[0], _KEYS_TYPES):
                with hash_ok():
                    return f(*a, **k)
            return _native(f, a, k)
        if ts is str:
            return _str_method(slf, f, a, k)
        if isinstance(slf, dict):
            return _dict_method(slf, f, a, k)
        return f(*a, **k)
    if tf is _LRU_TYPE and core.ENG is not None:
        return _lru_call(f, a, k)
    if tf is type:
        if f is str and a and isinstance(a[0], BaseException):
            # an error message assembled from symbolic pieces (f-string): opaque text
            try:
                return f(*a, **k)
            except TypeError:
                return OpaqueMsg('<message of %s>' % type(a[0]).__name__)
        if f is datetime.timedelta and (any(type(x) is core.SymFloat for x in a)
                                        or any(type(x) is core.SymFloat for x in k.values())):
            return _timedelta_model(a, k)
        if f is str and len(a) == 1 and not k and (type(a[0]).__module__ or '').startswith('ZConfig') \
                and type(getattr(type(a[0]), '__str__', None)) is types.FunctionType:
            # str(obj) with a __str__ written in Python: the C wrapper would refuse a symbolic result
            return type(a[0]).__str__(a[0])
        if f in _BUILTIN_TYPES:
            if a and _sym(a[0]):
                return _builtin_func(f, a, k)
            if f is dict:
                with hash_ok():
                    return _symdict_from(f(*a, **k))
        return f(*a, **k)
    return f(*a, **k)


class SymTimedelta:
    """datetime.timedelta built from symbolic floats: total seconds as an exact z3 Real term"""

    def __init__(self, total):
        self.total = total

    @staticmethod
    def _secs(o):
        if isinstance(o, SymTimedelta):
            return o.total
        if isinstance(o, datetime.timedelta):
            import fractions
            return core.real_term(fractions.Fraction((o.days * 86400 + o.seconds) * 10 ** 6 + o.microseconds, 10 ** 6))
        return None

    @staticmethod
    def _ranged(total):
        lo = core.real_term(-_TD_MAX_DAYS * 86400)
        hi = core.real_term((_TD_MAX_DAYS + 1) * 86400)
        if core.mk(z3.Or(total < lo, total >= hi)):
            raise OverflowError('days; must have magnitude <= 999999999')
        return SymTimedelta(z3.simplify(total))

    def __add__(self, o):
        b = self._secs(o)
        if b is None:
            return NotImplemented
        return self._ranged(self.total + b)
    __radd__ = __add__

    def __sub__(self, o):
        b = self._secs(o)
        if b is None:
            return NotImplemented
        return self._ranged(self.total - b)

    def __rsub__(self, o):
        b = self._secs(o)
        if b is None:
            return NotImplemented
        return self._ranged(b - self.total)

    def __neg__(self):
        return self._ranged(-self.total)


_TD_MAX_DAYS = 999999999


def _timedelta_model(a, k):
    """datetime.timedelta(days, seconds, microseconds, milliseconds, minutes, hours, weeks) on exact
    rationals: NaN -> ValueError and infinity -> OverflowError, whichever argument the C constructor
    meets first (microseconds, milliseconds, seconds, minutes, hours, days, weeks); a total outside
    +-999999999 days -> OverflowError.  Rounding to microseconds is not modelled."""
    names = ('days', 'seconds', 'microseconds', 'milliseconds', 'minutes', 'hours', 'weeks')
    args = dict(zip(names, a))
    args.update(k)
    if set(args) - set(names):
        raise Unsupported('timedelta keyword')
    STUBS_USED.add('datetime.timedelta (exact rational arithmetic; NaN / infinity / range errors as in CPython)')
    import fractions
    unit = {'microseconds': fractions.Fraction(1, 10 ** 6), 'milliseconds': fractions.Fraction(1, 1000),
            'seconds': 1, 'minutes': 60, 'hours': 3600, 'days': 86400, 'weeks': 604800}
    total = core.real_term(0)
    for nm in ('microseconds', 'milliseconds', 'seconds', 'minutes', 'hours', 'days', 'weeks'):
        if nm not in args:
            continue
        kind, v = core.float_parts(args[nm])
        if kind == 'nan':
            raise ValueError('cannot convert float NaN to integer')
        if kind in ('inf', 'ninf'):
            raise OverflowError('cannot convert float infinity to integer')
        total = total + core.real_term(v) * core.real_term(unit[nm])
    lo = core.real_term(-_TD_MAX_DAYS * 86400)
    hi = core.real_term((_TD_MAX_DAYS + 1) * 86400)
    if core.mk(z3.Or(total < lo, total >= hi)):
        raise OverflowError('days; must have magnitude <= 999999999')
    return SymTimedelta(z3.simplify(total))


_LRU_TYPE = type(__import__('functools').lru_cache(lambda: None))
_LRU_EMUL = {}          # id(wrapper) -> [(args, result)]; per path (reset_path_state)


def reset_path_state():
    _LRU_EMUL.clear()


def _lru_call(f, a, k):
    """functools.lru_cache wrapper called from instrumented code: the memo is emulated with a scan
    using symbolic equality (no hashing), so a cache keyed by a symbolic argument behaves like the
    real one - including staleness"""
    if k:
        raise Unsupported('lru_cache wrapper called with keyword arguments')
    memo = _LRU_EMUL.setdefault(id(f), [])
    for args, res in memo:
        if len(args) == len(a) and all(_eq(x, y) if isinstance(x, (str, SymStr)) and isinstance(y, (str, SymStr))
                                       else (x == y and type(x) is type(y)) for x, y in zip(args, a)):
            return res
    res = _vf_call(f.__wrapped__, *a)
    memo.append((a, res))
    return res


def _native(f, a, k):
    """call code that is not compiled through the hook; a TypeError it raises *because* it was
    handed a proxy is an engine limitation (-> Unsupported, the path degrades to concrete
    sampling), not behaviour of the code under test"""
    try:
        return f(*a, **k)
    except TypeError as e:
        msg = str(e)
        # the proxy may be named in the message - or not ("expected bytes"): any TypeError out of native
        # code that was handed a proxy is taken as the proxy's fault (the path degrades to concrete
        # sampling on the real code, which shows a genuine TypeError just as well)
        if ('SymStr' in msg or 'SymInt' in msg or 'SymBool' in msg or any(_sym(x) for x in a)
                or any(_sym(x) for x in k.values())):
            raise Unsupported('native %s cannot take a symbolic argument (%s)'
                              % (getattr(f, '__qualname__', f), msg[:80])) from None
        raise


def _getenv(name, default=None):
    env = ENV['map']
    if env is None:
        if type(name) is SymStr:
            raise Unsupported('os.getenv on symbolic name without a stub environment')
        return os.environ.get(name, default)
    STUBS_USED.add('os.getenv')
    for kk, v in env.items():
        if _eq(name, kk):
            return v
    return default


HELPERS = (_vf_call, _vf_getitem, _vf_setitem, _vf_delitem, _vf_contains, _vf_mod, _vf_fmt,
           _vf_join, _vf_dict, _vf_dictcomp)


# ---------------------------------------------------------------------- AST rewrite
def _name(n):
    return ast.Name(n, ast.Load())


_NO_WRAP = {'super', 'locals', 'globals', 'vars', 'eval', 'exec', 'property', 'staticmethod',
            'classmethod'}


class Rewriter(ast.NodeTransformer):
    def __init__(self, modname):
        self.modname = modname
        self.scope = []

    def _in_function(self):
        return bool(self._fdepth)

    _fdepth = 0

    def _enter(self, node):
        isf = isinstance(node, (ast.FunctionDef, ast.AsyncFunctionDef))
        if isf:
            self._fdepth += 1
        try:
            return self._enter2(node)
        finally:
            if isf:
                self._fdepth -= 1

    def _enter2(self, node):
        self.scope.append(node.name)
        if isinstance(node, (ast.FunctionDef, ast.AsyncFunctionDef)):
            FUNCS_SEEN.add(self.modname + '.' + '.'.join(self.scope))
        decos, node.decorator_list = node.decorator_list, []      # decorators are left native
        self.generic_visit(node)
        node.decorator_list = decos
        self.scope.pop()
        return node

    def visit_FunctionDef(self, node):
        return self._enter(node)

    def visit_ClassDef(self, node):
        return self._enter(node)

    def visit_Call(self, node):
        self.generic_visit(node)
        if isinstance(node.func, ast.Name) and node.func.id in _NO_WRAP:
            return node
        return ast.copy_location(
            ast.Call(func=_name('_vf_call'), args=[node.func] + node.args,
                     keywords=node.keywords), node)

    def _slice(self, s):
        return s

    def visit_Slice(self, node):
        self.generic_visit(node)
        none = ast.Constant(None)
        return ast.copy_location(
            ast.Call(func=_name('slice'),
                     args=[node.lower or none, node.upper or none, node.step or none],
                     keywords=[]), node)

    def visit_Subscript(self, node):
        self.generic_visit(node)
        if isinstance(node.ctx, ast.Load):
            return ast.copy_location(
                ast.Call(func=_name('_vf_getitem'), args=[node.value, node.slice], keywords=[]),
                node)
        return node

    def visit_Assign(self, node):
        self.generic_visit(node)
        if len(node.targets) == 1 and isinstance(node.targets[0], ast.Subscript):
            t = node.targets[0]
            return ast.copy_location(ast.Expr(
                ast.Call(func=_name('_vf_setitem'), args=[t.value, t.slice, node.value],
                         keywords=[])), node)
        return node

    def visit_AugAssign(self, node):
        self.generic_visit(node)
        if isinstance(node.target, ast.Subscript):
            raise SyntaxError('augmented assignment to a subscript is not instrumented (%s:%d)'
                              % (self.modname, node.lineno))
        return node

    def visit_Delete(self, node):
        self.generic_visit(node)
        out = []
        for t in node.targets:
            if isinstance(t, ast.Subscript):
                out.append(ast.copy_location(ast.Expr(
                    ast.Call(func=_name('_vf_delitem'), args=[t.value, t.slice], keywords=[])),
                    node))
            else:
                out.append(ast.copy_location(ast.Delete(targets=[t]), node))
        return out

    def visit_Compare(self, node):
        self.generic_visit(node)
        if len(node.ops) == 1 and isinstance(node.ops[0], (ast.In, ast.NotIn)):
            return ast.copy_location(
                ast.Call(func=_name('_vf_contains'),
                         args=[node.left, node.comparators[0],
                               ast.Constant(isinstance(node.ops[0], ast.NotIn))],
                         keywords=[]), node)
        if any(isinstance(o, (ast.In, ast.NotIn)) for o in node.ops):
            raise SyntaxError('chained `in` comparison is not instrumented')
        return node

    def visit_BinOp(self, node):
        self.generic_visit(node)
        if isinstance(node.op, ast.Mod):
            return ast.copy_location(
                ast.Call(func=_name('_vf_mod'), args=[node.left, node.right], keywords=[]), node)
        return node

    def visit_JoinedStr(self, node):
        self.generic_visit(node)
        parts = []
        for v in node.values:
            if isinstance(v, ast.Constant):
                parts.append(v)
            else:
                spec = v.format_spec if v.format_spec is not None else ast.Constant('')
                parts.append(ast.Call(func=_name('_vf_fmt'),
                                      args=[v.value, ast.Constant(v.conversion), spec],
                                      keywords=[]))
        return ast.copy_location(ast.Call(func=_name('_vf_join'), args=parts, keywords=[]), node)

    def visit_DictComp(self, node):
        self.generic_visit(node)
        gen = ast.GeneratorExp(elt=ast.Tuple(elts=[node.key, node.value], ctx=ast.Load()),
                               generators=node.generators)
        return ast.copy_location(ast.Call(func=_name('_vf_dictcomp'), args=[gen], keywords=[]), node)

    def visit_Dict(self, node):
        self.generic_visit(node)
        if any(k is None for k in node.keys):
            return node            # {**other}: left native
        if not self._in_function():
            return node            # class bodies / module level tables stay plain dicts
        return ast.copy_location(
            ast.Call(func=_name('_vf_dict'),
                     args=[ast.List(elts=list(node.keys), ctx=ast.Load()),
                           ast.List(elts=list(node.values), ctx=ast.Load())],
                     keywords=[]), node)


class Loader(importlib.machinery.SourceFileLoader):
    def source_to_code(self, data, path, *, _optimize=-1):
        tree = ast.parse(data, path)
        tree = Rewriter(self.name).visit(tree)
        ast.fix_missing_locations(tree)
        MODULES_SEEN.append(path)
        return compile(tree, path, 'exec', dont_inherit=True, optimize=_optimize)

    def get_code(self, fullname):
        # never use or write cached bytecode: always compile the current source text
        source_path = self.get_filename(fullname)
        source_bytes = self.get_data(source_path)
        return self.source_to_code(source_bytes, source_path)


class Finder(importlib.abc.MetaPathFinder):
    def find_spec(self, name, path, target=None):
        if not (name == 'ZConfig' or name.startswith('ZConfig.')):
            return None
        if '.tests' in name:
            return None
        spec = importlib.machinery.PathFinder.find_spec(name, path)
        if spec is None or not isinstance(spec.loader, importlib.machinery.SourceFileLoader):
            return spec
        spec.loader = Loader(spec.loader.name, spec.loader.path)
        return spec


def instrumented_copy(modname, alias):
    """An instrumented private copy of a pure-Python stdlib module (same source text as the
    interpreter's, compiled through the same rewrite); functools.lru_cache wrappers are removed
    so that no symbolic value is ever hashed."""
    import importlib.util
    spec = importlib.util.find_spec(modname)
    src = open(spec.origin).read()
    tree = Rewriter(alias).visit(ast.parse(src, spec.origin))
    ast.fix_missing_locations(tree)
    mod = types.ModuleType(alias)
    mod.__file__ = spec.origin
    mod.__package__ = modname.rpartition('.')[0]
    sys.modules[alias] = mod
    exec(compile(tree, spec.origin, 'exec', dont_inherit=True), mod.__dict__)
    for k, v in list(vars(mod).items()):
        w = getattr(v, '__wrapped__', None)
        if w is not None and hasattr(v, 'cache_info'):
            setattr(mod, k, w)
    return mod


_URLCOPY = [None]


def install_urllib():
    """urllib.parse.{urljoin, urldefrag, urlsplit, urlparse, urlunparse, urlunsplit} run through
    an instrumented copy of urllib/parse.py whenever an argument is symbolic."""
    if _URLCOPY[0] is not None:
        return _URLCOPY[0]
    import urllib.parse as real
    mod = instrumented_copy('urllib.parse', 'vf_urllib_parse')

    def _check_bracketed_host(hostname):
        if type(hostname) is SymStr:
            raise Unsupported('bracketed host in a symbolic URL (ipaddress module not modelled)')
        return real._check_bracketed_host(hostname)
    if hasattr(mod, '_check_bracketed_host'):
        mod._check_bracketed_host = _check_bracketed_host

    def _checknetloc(netloc):
        if type(netloc) is not SymStr:
            return real._checknetloc(netloc)
        import unicodedata
        dom = core.current().domain
        if dom.full:
            if netloc.isascii():
                return
            raise Unsupported('NFKC normalisation of a symbolic non-ASCII netloc in domain U')
        # characters of the domain whose NFKC form introduces a URL delimiter (computed from the
        # running interpreter); the real function raises ValueError exactly when one is present
        bad = [c for c in dom.members if chr(c) not in '/?#@:'
               and any(x in unicodedata.normalize('NFKC', chr(c)) for x in '/?#@:')]
        for c in netloc.cs:
            for b in bad:
                if (c == b) if isinstance(c, int) else core.current().decide(c == b):
                    raise ValueError('netloc contains invalid characters under NFKC normalization')
    if hasattr(mod, '_checknetloc'):
        mod._checknetloc = _checknetloc
    for nm in ('urljoin', 'urldefrag', 'urlsplit', 'urlparse', 'urlunparse', 'urlunsplit'):
        f = getattr(real, nm)
        f = getattr(f, '__wrapped__', f) if False else f
        PERMANENT_STUBS[f] = getattr(mod, nm)
    _URLCOPY[0] = mod
    return mod


def _sym_textwrap_indent(text, prefix, predicate=None):
    """textwrap.indent on a symbolic string: the stdlib function re-stated over the proxies' own
    splitlines(keepends) / strip (which are modelled), so that the line boundaries it sees are
    exactly str.splitlines' ones"""
    out = ''
    for line in text.splitlines(True):
        keep = predicate(line) if predicate is not None else line.strip()
        out = out + ((prefix + line) if keep else line)
    return out


def _install_small_stubs():
    import textwrap
    PERMANENT_STUBS[textwrap.indent] = _sym_textwrap_indent


_installed = [False]


def install(repo_src=None):
    """Install the hook.  Must run before ZConfig is imported."""
    _install_small_stubs()
    if _installed[0]:
        return
    if 'ZConfig' in sys.modules:
        raise RuntimeError('ZConfig already imported before the instrumentation hook')
    for f in HELPERS:
        setattr(builtins, f.__name__, f)
    sys.dont_write_bytecode = True
    src = repo_src or os.environ.get('VERIF_REPO_SRC', '/repo/src')
    if src not in sys.path:
        sys.path.insert(0, src)
    sys.meta_path.insert(0, Finder())
    _installed[0] = True


def installed():
    return _installed[0]

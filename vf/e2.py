"""E2: unbounded language claims with z3's regular-expression theory.
For a live pattern P and a reference regex R:  exists s. (s in L(P)) xor (s in L(R))  must be
unsat.  unknown / errors are inconclusive, never success."""
import time

import z3

from .symrx import to_z3_regex


def _A():
    return z3.Union(z3.Range('a', 'z'), z3.Range('A', 'Z'))


def _D():
    return z3.Range('0', '9')


def _re(c):
    return z3.Re(z3.StringVal(c))


def ident():
    return z3.Concat(z3.Union(_A(), _re('_')), z3.Star(z3.Union(_A(), _D(), _re('_'))))


def reference_languages():
    A, D = _A(), _D()
    i = ident()
    dotted = z3.Concat(i, z3.Star(z3.Concat(_re('.'), i)))
    return {
        'basic-key': z3.Concat(A, z3.Star(z3.Union(A, D, _re('-'), _re('.'), _re('_')))),
        'identifier': i,
        'dotted-name': dotted,
        'dotted-suffix': z3.Union(dotted, z3.Plus(z3.Concat(_re('.'), i))),
    }


def equal_language(live, ref, timeout_ms=20000):
    s = z3.String('s')
    sol = z3.Solver()
    sol.set('timeout', timeout_ms)
    sol.add(z3.Xor(z3.InRe(s, live), z3.InRe(s, ref)))
    t = time.time()
    r = sol.check()
    wit = None
    if r == z3.sat:
        wit = _unescape(sol.model()[s].as_string())
    return str(r), wit, time.time() - t


def _unescape(w):
    import re
    return re.sub(r'\\u\{([0-9a-fA-F]+)\}', lambda m: chr(int(m.group(1), 16)), w)


def check_datatype_languages():
    """-> preflight dict for C09"""
    from ZConfig import datatypes as dt
    out = {'obligations': 0, 'discharged': 0, 'queries': []}
    for name, ref in reference_languages().items():
        live = dt.stock_datatypes[name]._rx.pattern
        try:
            r, wit, secs = equal_language(to_z3_regex(live), ref)
        except Exception as e:      # translation failure = inconclusive
            r, wit, secs = 'error: %s' % e, None, 0.0
        out['obligations'] += 1
        q = {'datatype': name, 'live_pattern': live, 'result': r, 'seconds': round(secs, 3)}
        if r == 'unsat':
            out['discharged'] += 1
        elif r == 'sat':
            q['witness'] = wit
            # a string in one language and not in the other: replayed concretely through the real
            # converter and the reference model (a violation only if they disagree on it)
            out.setdefault('replay', []).append(({'dt': name, 'len': len(wit)}, {'s': wit}))
        out['queries'].append(q)
    return out


def check_named(live_pattern, ref):
    return equal_language(to_z3_regex(live_pattern), ref)

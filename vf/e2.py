"""E2: unbounded language claims with z3's regular-expression theory.
For a live pattern P and a reference regex R:  exists s. (s in L(P)) xor (s in L(R))  must be
unsat.  unknown / errors are inconclusive, never success."""
import time

import z3

from .symrx import to_z3_regex


def _A():
    return z3.Union(z3.Range('a', 'z'), z3.Range('A', 'Z'))


def _D():
    return z3.Range('0', '9')


def _re(c):
    return z3.Re(z3.StringVal(c))


def ident():
    return z3.Concat(z3.Union(_A(), _re('_')), z3.Star(z3.Union(_A(), _D(), _re('_'))))


def reference_languages():
    A, D = _A(), _D()
    i = ident()
    dotted = z3.Concat(i, z3.Star(z3.Concat(_re('.'), i)))
    return {
        'basic-key': z3.Concat(A, z3.Star(z3.Union(A, D, _re('-'), _re('.'), _re('_')))),
        'identifier': i,
        'dotted-name': dotted,
        'dotted-suffix': z3.Union(dotted, z3.Plus(z3.Concat(_re('.'), i))),
    }


def equal_language(live, ref, timeout_ms=20000):
    s = z3.String('s')
    sol = z3.Solver()
    sol.set('timeout', timeout_ms)
    sol.add(z3.Xor(z3.InRe(s, live), z3.InRe(s, ref)))
    t = time.time()
    r = sol.check()
    wit = None
    if r == z3.sat:
        wit = _unescape(sol.model()[s].as_string())
    return str(r), wit, time.time() - t


def _unescape(w):
    import re
    return re.sub(r'\\u\{([0-9a-fA-F]+)\}', lambda m: chr(int(m.group(1), 16)), w)


def check_datatype_languages():
    """-> preflight dict for C09"""
    from ZConfig import datatypes as dt
    out = {'obligations': 0, 'discharged': 0, 'queries': []}
    for name, ref in reference_languages().items():
        live = dt.stock_datatypes[name]._rx.pattern
        try:
            r, wit, secs = equal_language(to_z3_regex(live), ref)
        except Exception as e:      # translation failure = inconclusive
            r, wit, secs = 'error: %s' % e, None, 0.0
        out['obligations'] += 1
        q = {'datatype': name, 'live_pattern': live, 'result': r, 'seconds': round(secs, 3)}
        if r == 'unsat':
            out['discharged'] += 1
        elif r == 'sat':
            q['witness'] = wit
            # a string in one language and not in the other: replayed concretely through the real
            # converter and the reference model (a violation only if they disagree on it)
            out.setdefault('replay', []).append(({'dt': name, 'len': len(wit)}, {'s': wit}))
        out['queries'].append(q)
    check_ipaddr_language(out)
    return out


def ipaddr_reference_no_colon():
    """dotted quad (octets 0..255, at most three digits, leading zeros allowed) or host name of at least
    two characters ([A-Za-z_] [-A-Za-z0-9_.]* [-A-Za-z0-9_]); what ipaddr-or-hostname accepts among the
    strings WITHOUT a colon (those with a colon are IPv6 candidates and go through inet_pton)"""
    A, D = _A(), _D()
    octet = z3.Union(D, z3.Concat(D, D), z3.Concat(z3.Range('0', '1'), D, D),
                     z3.Concat(_re('2'), z3.Range('0', '4'), D), z3.Concat(_re('25'), z3.Range('0', '5')))
    dot = _re('.')
    quad = z3.Concat(octet, dot, octet, dot, octet, dot, octet)
    hc = z3.Union(A, D, _re('-'), _re('_'))
    host = z3.Concat(z3.Union(A, _re('_')), z3.Star(z3.Union(hc, dot)), hc)
    return z3.Union(quad, host)


def check_ipaddr_language(out):
    """the live ipaddr-or-hostname pattern, restricted to strings without ':' , against the reference;
    language equality is the right notion here because among colon-free strings the first alternative
    is anchored and the last one is the only other that can match at all (full-match is then
    independent of Python's alternation priority)"""
    from ZConfig import datatypes as dt
    live = dt.stock_datatypes['ipaddr-or-hostname']._rx.pattern
    anything = z3.Full(z3.ReSort(z3.StringSort()))
    nocolon = z3.Complement(z3.Concat(anything, _re(':'), anything))
    try:
        r, wit, secs = equal_language(z3.Intersect(to_z3_regex(live), nocolon), ipaddr_reference_no_colon())
    except Exception as e:
        r, wit, secs = 'error: %s' % e, None, 0.0
    out['obligations'] += 1
    q = {'datatype': 'ipaddr-or-hostname (strings without a colon)', 'live_pattern': live, 'result': r,
         'seconds': round(secs, 3)}
    if r == 'unsat':
        out['discharged'] += 1
    elif r == 'sat':
        q['witness'] = wit
        out.setdefault('replay', []).append(({'dt': 'ipaddr-or-hostname', 'len': len(wit)}, {'s': wit}))
    out['queries'].append(q)


def check_named(live_pattern, ref):
    return equal_language(to_z3_regex(live_pattern), ref)

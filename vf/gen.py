"""Generated schema family and text skeletons (DESIGN section 6).

A schema is a small description (plain dicts) from which the XML, the reference oracle's
view and (C11) the mechanical expansion are rendered.  The oracle never reads ZConfig's
parsed schema objects.  All vocabulary words (keys, types, section names) have length 2 so
that one symbolic 2-character token ranges over every in-vocabulary word, every case
variant and every out-of-vocabulary word at once.
"""
from xml.sax.saxutils import quoteattr, escape


def key(name, dt='string', default=None, required=False, attr=None, handler=None, defaults=None):
    """defaults: for name '+' a list of (key, value) pairs"""
    return {'kind': 'key', 'name': name, 'dt': dt, 'default': default, 'required': required,
            'attr': attr, 'handler': handler, 'defaults': defaults or []}


def multikey(name, dt='string', defaults=None, required=False, attr=None, handler=None):
    """defaults: list of values, or for name '+' a list of (key, value) pairs"""
    return {'kind': 'multikey', 'name': name, 'dt': dt, 'defaults': defaults or [],
            'required': required, 'attr': attr, 'handler': handler}


def section(type_, name='*', attr=None, required=False, handler=None):
    return {'kind': 'section', 'type': type_, 'name': name, 'attr': attr, 'required': required,
            'handler': handler}


def multisection(type_, name='*', attr=None, required=False, handler=None):
    return {'kind': 'multisection', 'type': type_, 'name': name, 'attr': attr,
            'required': required, 'handler': handler}


def stype(name, items=(), extends=None, implements=None, keytype=None, datatype=None):
    return {'name': name, 'items': list(items), 'extends': extends, 'implements': implements,
            'keytype': keytype, 'datatype': datatype}


def schema(items=(), types=(), abstract=(), keytype=None, datatype=None, handler=None):
    """types: list of stype() and ('abstract', name) entries in definition order"""
    return {'items': list(items), 'types': list(types), 'keytype': keytype,
            'datatype': datatype, 'handler': handler}


WRAP = 'vf.dtsupport.wrap'
WRAP2 = 'vf.dtsupport.wrap2'


# ---------------------------------------------------------------------- family
def family():
    F = {}
    F['S1'] = schema(items=[
        key('ka', 'integer', default='3'),
        key('kb', required=True),
        multikey('kc'),
        key('+', attr='any'),
    ])
    F['S2'] = schema(
        types=[stype('ta', [key('ka', 'integer', required=True), multikey('kb')]),
               stype('tb', [key('kc', default='x')], extends='ta')],
        items=[multisection('ta', '+', attr='secs'),
               section('tb', '*', attr='one'),
               key('kt', 'integer', default='3'),
               key('+', attr='any')])
    F['S3'] = schema(
        types=[('abstract', 'aa'),
               stype('ta', [key('ka')], implements='aa'),
               stype('tb', [key('kb', 'boolean')], implements='aa'),
               stype('tc', [key('kc')])],
        items=[section('aa', '*', attr='sx'),
               multisection('aa', '+', attr='ms'),
               section('tc', 'sa')])
    F['S4'] = schema(
        types=[stype('tc', [key('kc', 'integer')]),
               stype('tb', [multisection('tc', '*', attr='cs'), key('kb')]),
               stype('ta', [section('tb', '*', attr='sb', required=True), key('ka')])],
        items=[section('ta', '*', attr='sa'), multikey('km', 'integer', defaults=['1', '2'])])
    F['S5'] = schema(
        keytype='identifier',
        types=[stype('ta', [key('+', attr='hosts', dt='integer',
                                defaults=[('h1', '1'), ('H2', '2')]),
                            ], keytype='ipaddr-or-hostname'),
               stype('tb', [key('kd', default='d'), key('+', attr='any')])],
        items=[multikey('+', attr='mm', defaults=[('Ka', 'x'), ('Ka', 'y'), ('kb', 'z')]),
               multikey('Kc', required=True, defaults=['d']),
               multisection('ta', '*', attr='ts'),
               # a section type WITHOUT a key type of its own in a schema whose key type is identifier: it is
               # basic-key, not the schema's
               section('tb', 'sb')])
    F['S6'] = schema(
        types=[stype('ta', [key('ka')]), stype('tb', [key('kb')])],
        items=[section('ta', 'sa', required=True),
               section('tb', 'sb'),
               multisection('ta', '*', attr='rest'),
               key('kx')])
    F['S7'] = schema(
        types=[stype('ta', [key('ka', 'port-number', default='80'),
                            key('kb', 'byte-size'),
                            key('kc', 'boolean', default='on')], datatype=WRAP)],
        items=[key('ka', 'string-list', default='a b'),
               key('kb', 'time-interval', default='2m'),
               key('kc', 'identifier'),
               key('kd', 'inet-address', default=':80'),
               key('k-e', 'basic-key', default='Ab'),
               key('k--f', default='ff'),
               section('ta', '*', attr='sa'),
               multisection('ta', '+', attr='ms')])
    F['S8'] = schema(
        types=[('abstract', 'aa'),
               stype('ta', [key('ka', attr='_a')]),
               stype('tb', [key('kb')], extends='ta', implements='aa'),
               stype('tc', [key('kc')], extends='tb')],
        items=[multisection('aa', '+', attr='xs'),
               section('ta', '*', attr='sa')])
    # implementers of one abstract type with different section datatypes, mixed in one slot
    F['S13'] = schema(
        types=[('abstract', 'aa'),
               stype('ta', [key('ka')], implements='aa', datatype=WRAP),
               stype('tb', [key('kb')], implements='aa'),
               stype('tc', [key('kc')], implements='aa', datatype=WRAP2),
               stype('td', [key('kd')], extends='tc')],
        items=[section('aa', 'sa'), multisection('aa', '*', attr='xs'), multisection('td', '+', attr='ds'),
               # a slot of an implementing concrete type declared AFTER the abstract wildcard slot:
               # first fit in declaration order means it is never reached by unnamed/any-named <tb>
               section('tb', '*', attr='tb1')])
    # a wildcard slot declared before a fixed-name slot of the same type (declaration order decides),
    # empty-string defaults, a schema-level datatype
    F['S14'] = schema(
        types=[stype('ta', [key('ka', default=''), key('kb', 'string-list', default='')]),
               stype('tb', [key('kb')])],
        items=[multisection('ta', '*', attr='rest'),
               section('ta', 'sa'),
               section('tb', 'sb'),
               # a '+' key declared BEFORE declared keys and before a '+' section slot
               key('+', attr='any'),
               multisection('tb', '+', attr='bs'),
               key('kx', default=''), key('ky', 'basic-key', default='Ab')],
        datatype=WRAP)
    # a section type whose '+' multikey has keyed defaults: two sections of one text (or two loads) that both
    # leave the map to its defaults share nothing but the schema's description of them
    F['S15'] = schema(
        types=[stype('ta', [multikey('+', attr='mm', dt='integer', defaults=[('da', '1'), ('da', '2'), ('db', '3')]),
                            multikey('kl', defaults=['x  y', 'a\tb']),
                            # an explicit attribute name with a leading underscore (a legal identifier)
                            key('ka', 'string-list', default='p q', attr='_ka')])],
        items=[multisection('ta', '*', attr='ms'), section('ta', 'sa')])
    # ---- thorough-only members
    F['S9'] = schema(
        types=[stype('ta', [key('+', attr='mp', required=True)])],
        items=[multikey('+', attr='mm', dt='integer', required=True, defaults=[('da', '1'), ('da', '2')]),
               key('ka'),
               multisection('ta', '*', attr='ms')])
    F['S10'] = schema(
        types=[('abstract', 'aa'), ('abstract', 'ab'),
               stype('ta', [key('ka')], implements='aa'),
               stype('tb', [key('kb')], implements='ab'),
               stype('tc', [section('aa', 'sa'), multisection('ab', '*', attr='bs')])],
        items=[section('tc', '*', attr='sc'), section('ab', 'sb'), key('sa')])
    F['S11'] = schema(
        keytype='ipaddr-or-hostname',
        items=[key('+', attr='hh', defaults=[('a.b', '1')]), key('h1', 'integer', default='7')])
    F['S12'] = schema(
        types=[stype('ta', [key('ka', 'integer', default='1')]),
               stype('tb', [key('ka2', 'integer', default='2'), section('ta', '*', attr='in')],
                     extends='ta'),
               stype('tc', [multikey('kb', 'boolean')], extends='tb', datatype=WRAP)],
        items=[multisection('tc', '*', attr='cs'), section('tb', 'sb'), section('ta', 'sa')],
        datatype=WRAP)
    return F


QUICK = ['S1', 'S2', 'S3', 'S4', 'S5', 'S6', 'S7', 'S8', 'S9', 'S13', 'S14', 'S15']
THOROUGH = QUICK + ['S10', 'S11', 'S12']


# ---------------------------------------------------------------------- XML rendering
def _attrs(d):
    return ''.join(' %s=%s' % (k, quoteattr(v)) for k, v in d.items() if v is not None)


def render_item(it, ind='  '):
    k = it['kind']
    a = {'name': it['name']}
    if it.get('attr'):
        a['attribute'] = it['attr']
    if it.get('required'):
        a['required'] = 'yes'
    if it.get('handler'):
        a['handler'] = it['handler']
    if k in ('key', 'multikey'):
        if it['dt'] != 'string':
            a['datatype'] = it['dt']
        body = ''
        if k == 'key':
            if it.get('default') is not None:
                a['default'] = it['default']
            for dk, dv in it.get('defaults', []):
                body += '%s  <default key=%s>%s</default>\n' % (ind, quoteattr(dk), escape(dv))
        else:
            for d in it.get('defaults', []):
                if isinstance(d, (tuple, list)):
                    body += '%s  <default key=%s>%s</default>\n' % (ind, quoteattr(d[0]), escape(d[1]))
                else:
                    body += '%s  <default>%s</default>\n' % (ind, escape(d))
        if body:
            return '%s<%s%s>\n%s%s</%s>\n' % (ind, k, _attrs(a), body, ind, k)
        return '%s<%s%s/>\n' % (ind, k, _attrs(a))
    a = {'type': it['type'], 'name': it['name']}
    if it.get('attr'):
        a['attribute'] = it['attr']
    if it.get('required'):
        a['required'] = 'yes'
    if it.get('handler'):
        a['handler'] = it['handler']
    return '%s<%s%s/>\n' % (ind, k, _attrs(a))


def render(s):
    a = {}
    if s.get('keytype'):
        a['keytype'] = s['keytype']
    if s.get('datatype'):
        a['datatype'] = s['datatype']
    if s.get('handler'):
        a['handler'] = s['handler']
    out = '<schema%s>\n' % _attrs(a)
    for t in s['types']:
        if isinstance(t, (tuple, list)):
            out += '  <abstracttype name=%s/>\n' % quoteattr(t[1])
            continue
        ta = {'name': t['name'], 'extends': t.get('extends'), 'implements': t.get('implements'),
              'keytype': t.get('keytype'), 'datatype': t.get('datatype')}
        out += '  <sectiontype%s>\n' % _attrs(ta)
        for it in t['items']:
            out += render_item(it, '    ')
        out += '  </sectiontype>\n'
    for it in s['items']:
        out += render_item(it)
    out += '</schema>\n'
    return out


# ---------------------------------------------------------------------- oracle's view
class View:
    """What the reference oracle knows about a schema: computed from the description only."""

    def __init__(self, s):
        self.s = s
        self.abstract = {}
        self.types = {}
        for t in s['types']:
            if isinstance(t, (tuple, list)):
                self.abstract[t[1]] = []
        for t in s['types']:
            if isinstance(t, (tuple, list)):
                continue
            base = self.types[t['extends']] if t.get('extends') else None
            items = (list(base['items']) if base else []) + list(t['items'])
            kt = t.get('keytype') or (base['keytype'] if base else 'basic-key')
            dt = t.get('datatype') or (base['datatype'] if base else None)
            self.types[t['name']] = {'name': t['name'], 'items': items, 'keytype': kt,
                                     'datatype': dt}
            if t.get('implements'):
                self.abstract[t['implements']].append(t['name'])
        self.top = {'name': None, 'items': list(s['items']),
                    'keytype': s.get('keytype') or 'basic-key', 'datatype': s.get('datatype')}

    def clone(self):
        import copy
        v = View.__new__(View)
        v.s = self.s
        v.abstract = {k: list(x) for k, x in self.abstract.items()}
        v.types = dict(self.types)
        v.top = self.top
        return v

    def add_component(self, comp):
        """comp: {'types': [stype() | ('abstract', name), ...], 'requires': [...]} - what a
        component package defines; types already known are left alone (idempotent import)"""
        for t in comp['types']:
            if isinstance(t, (tuple, list)):
                self.abstract.setdefault(t[1], [])
        for t in comp['types']:
            if isinstance(t, (tuple, list)) or t['name'] in self.types:
                continue
            base = self.types[t['extends']] if t.get('extends') else None
            items = (list(base['items']) if base else []) + list(t['items'])
            kt = t.get('keytype') or (base['keytype'] if base else 'basic-key')
            dt = t.get('datatype') or (base['datatype'] if base else None)
            self.types[t['name']] = {'name': t['name'], 'items': items, 'keytype': kt, 'datatype': dt}
            if t.get('implements'):
                self.abstract[t['implements']].append(t['name'])

    def attr_of(self, it):
        if it.get('attr'):
            return it['attr']
        return it['name'].lower().replace('-', '_')

    def words(self):
        """vocabulary: (keys, type names, section names)"""
        keys, names = set(), set()
        conts = [self.top] + list(self.types.values())
        for c in conts:
            for it in c['items']:
                if it['kind'] in ('key', 'multikey'):
                    if it['name'] != '+':
                        keys.add(it['name'])
                elif it['name'] not in ('*', '+'):
                    names.add(it['name'])
        return sorted(keys), sorted(self.types) + sorted(self.abstract), sorted(names)


# ---------------------------------------------------------------------- skeletons
# A skeleton is a list of line templates.  Token kinds:
#   K key, V value, T section type, N section name
# A line template is a list of parts; a part is a literal str or a hole ('K'|'V'|'T'|'N', id).
# Closers reuse the opener's T hole.

def shapes(max_lines, max_depth=3):
    """all balanced sequences over {k, o (open named), u (open unnamed), e (empty named),
    f (empty unnamed), c (close)} up to max_lines"""
    out = []

    def rec(seq, depth):
        if depth == 0 and seq:
            out.append(''.join(seq))
        if len(seq) >= max_lines:
            return
        for ch in 'kouef':
            if ch in 'ou':
                if depth < max_depth and len(seq) + 2 <= max_lines + 0:
                    rec(seq + [ch], depth + 1)
            else:
                rec(seq + [ch], depth)
        if depth > 0:
            rec(seq + ['c'], depth - 1)
    rec([], 0)
    # only sequences that end balanced were recorded at depth 0; filter length
    return sorted(set(s for s in out if len(s) <= max_lines), key=lambda s: (len(s), s))


def skeleton(shape, value_len=1):
    """shape string -> (line specs, hole list).  Line spec parts: literal str or hole name.
    Hole names: k<i> v<i> t<i> n<i>."""
    lines = []
    holes = []
    stack = []
    for i, ch in enumerate(shape):
        if ch == 'k':
            lines.append([('k%d' % i, 'K'), ' ', ('v%d' % i, 'V')])
            holes += [('k%d' % i, 'K'), ('v%d' % i, 'V')]
        elif ch in 'oe':
            tail = '>' if ch == 'o' else '/>'
            lines.append(['<', ('t%d' % i, 'T'), ' ', ('n%d' % i, 'N'), tail])
            holes += [('t%d' % i, 'T'), ('n%d' % i, 'N')]
            if ch == 'o':
                stack.append('t%d' % i)
        elif ch in 'uf':
            tail = '>' if ch == 'u' else '/>'
            lines.append(['<', ('t%d' % i, 'T'), tail])
            holes += [('t%d' % i, 'T')]
            if ch == 'u':
                stack.append('t%d' % i)
        elif ch == 'c':
            lines.append(['</', (stack.pop(), 'T'), '>'])
    return lines, holes

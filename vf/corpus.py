"""The C01 text corpus (every balanced line shape, tokens as holes) in the template format of
harness.pipeline.TextMixin, plus the mechanical layout rewrites of C15.

A template line is a list of parts: literal str | [cls, n, name] (a named hole, first use) |
['=', name] / ['=U', name] / ['=L', name] / ['=S', name] (re-use, upper, lower, swapcase)."""
from . import gen


def template(shape, vlen=1):
    """-> (lines, info) where info[i] = (kind char, container id, hole names dict)"""
    lines, holes = gen.skeleton(shape)
    out, info = [], []
    seen = set()
    stack = [0]
    ncont = 0
    for ch, parts in zip(shape, lines):
        l = []
        names = {}
        for p in parts:
            if isinstance(p, str):
                l.append(p)
                continue
            name, kind = p
            names[kind] = name
            if name in seen:
                l.append(['=', name])
            else:
                seen.add(name)
                l.append(['v', vlen, name] if kind == 'V' else ['w', 2, name])
        if ch == 'c':
            stack.pop()
        info.append((ch, stack[-1], names))
        if ch in 'ou':
            ncont += 1
            stack.append(ncont)
        out.append(l)
    return out, info


def _ref(part, mode='='):
    """a part of the original line as it appears in the rewritten text"""
    if isinstance(part, str):
        return part
    if part[0] in ('=', '=U', '=L', '=S'):
        return [mode if part[0] == '=' else part[0], part[1]]
    return [mode, part[2]]


def refs(line, mode='='):
    return [_ref(p, mode) for p in line]


def rw_whitespace(lines, info, tag='s'):
    """symbolic whitespace in front of and behind every line, and around the inner separators"""
    out = []
    for i, l in enumerate(lines):
        new = [['s', 1, '%sa%d' % (tag, i)]]
        for p in l:
            if p == ' ':
                new.append(['s', 2, '%sm%d' % (tag, i)])
            elif p == '>' or p == '/>':
                new += [['s', 1, '%sg%d' % (tag, i)], p]
            else:
                new.append(_ref(p))
        new.append(['s', 2, '%sb%d' % (tag, i)])
        out.append(new)
    return out


def rw_blank(lines, info, tag='b'):
    """a blank, whitespace-only or comment line in every gap"""
    out = []
    kinds = [lambda i: '', lambda i: [['s', 2, '%sw%d' % (tag, i)]],
             lambda i: ['#', ['x', 2, '%sc%d' % (tag, i)]],
             lambda i: [['s', 1, '%sv%d' % (tag, i)], '#', ['x', 1, '%sd%d' % (tag, i)]]]
    for i, l in enumerate(lines):
        out.append(kinds[i % 4](i))
        out.append(refs(l))
    out.append(kinds[len(lines) % 4](len(lines)))
    return out


def rw_case(lines, info, keys=True):
    """letter case of section types (opener swapcase, closer upper), names (upper) and - when
    the key type is case-insensitive - keys (swapcase)"""
    out = []
    for (ch, cont, names), l in zip(info, lines):
        new = []
        for p in l:
            if isinstance(p, str):
                new.append(p)
                continue
            nm = p[2] if p[0] not in ('=',) else p[1]
            kind = nm[0]
            if kind == 't':
                new.append(['=U' if ch == 'c' else '=S', nm])
            elif kind == 'n':
                new.append(['=U', nm])
            elif kind == 'k' and keys:
                new.append(['=S', nm])
            else:
                new.append(['=', nm])
        out.append(new)
    return out


def rw_empty(lines, info):
    """'<t n/>' -> '<t n>' '</t>'   and   '<t n>' directly followed by '</t>' -> '<t n/>'"""
    out = []
    i = 0
    changed = False
    while i < len(lines):
        ch = info[i][0]
        l = lines[i]
        if ch in 'ef':
            out.append(refs(l[:-1]) + ['>'])
            out.append(['</', ['=', info[i][2]['T']], '>'])
            changed = True
        elif ch in 'ou' and i + 1 < len(lines) and info[i + 1][0] == 'c':
            out.append(refs(l[:-1]) + ['/>'])
            i += 1
            changed = True
        else:
            out.append(refs(l))
        i += 1
    return out if changed else None


def rw_reorder(lines, info):
    """within every container move the key lines behind the sections, in reverse order; valid
    when the keys of one container are pairwise different after normalisation
    -> (lines, [pairs of key hole names that must differ])"""
    n = len(lines)
    # group top-level items per container: an item is a key line or a whole section block
    def block(i):
        if info[i][0] in 'ou':
            d, j = 1, i + 1
            while d:
                d += {'o': 1, 'u': 1, 'c': -1}.get(info[j][0], 0)
                j += 1
            return j
        return i + 1

    distinct = []

    def emit(i, j):
        keys, secs = [], []
        k = i
        while k < j:
            e = block(k)
            if info[k][0] == 'k':
                keys.append(k)
            elif info[k][0] in 'ou':
                secs.append((k, e))
            else:
                secs.append((k, e))
            k = e
        out = []
        for (a, b) in secs:
            if info[a][0] in 'ou':
                out.append(refs(lines[a]))
                out += emit(a + 1, b - 1)
                out.append(refs(lines[b - 1]))
            else:
                out.append(refs(lines[a]))
        for a in reversed(keys):
            out.append(refs(lines[a]))
        for x in range(len(keys)):
            for y in range(x + 1, len(keys)):
                distinct.append([info[keys[x]][2]['K'], info[keys[y]][2]['K']])
        return out

    out = emit(0, n)
    if [refs(l) for l in lines] == out:
        return None, []
    return out, distinct


def compose(lines, info, keys=True):
    """all rewrites at once: reorder, empty forms, case, blank lines, whitespace"""
    cur, distinct = rw_reorder(lines, info)
    if cur is None:
        cur = [refs(l) for l in lines]
    # the later rewrites work on the *original* structure; apply those that keep line count first
    cased = rw_case(lines, info, keys)
    # map: rewritten 'cur' consists of refs of original lines; substitute their cased version
    idx = {repr(refs(l)): i for i, l in enumerate(lines)}
    cur2 = []
    for l in cur:
        i = idx.get(repr(l))
        cur2.append(cased[i] if i is not None else l)
    out = []
    for i, l in enumerate(cur2):
        if i % 2 == 0:
            out.append([['s', 1, 'cw%d' % i], '#', ['x', 1, 'cc%d' % i]])
        out.append([['s', 1, 'ca%d' % i]] + l + [['s', 1, 'cb%d' % i]])
    return out, distinct

"""A second module offering datatype functions under the SAME names as vf.dtsupport (C11: the same
'.'-relative name must resolve differently under different prefixes)."""
from .dtsupport import Wrapped2


def wrap(value):
    return Wrapped2(value)


def counted_int(value):
    """like int, but distinguishable from vf.dtsupport.counted_int: the result is negated"""
    if isinstance(value, str):
        return -int(value)
    from .symstr import sym_int
    return -sym_int(value)

"""Pristine replay worker: imports the UN-instrumented ZConfig from /repo/src and runs a
harness' observe/expect/agree on concrete inputs.  One JSON request per line on stdin."""
import json
import os
import sys


def main():
    src = os.environ.get('VERIF_REPO_SRC', '/repo/src')
    if src not in sys.path:
        sys.path.insert(0, src)
    sys.dont_write_bytecode = True
    from vf import base
    out = sys.stdout
    # anything the code under test prints must not corrupt the protocol
    sys.stdout = sys.stderr
    harnesses = {}
    for line in sys.stdin:
        line = line.strip()
        if not line:
            continue
        req = json.loads(line)
        try:
            h = harnesses.get(req['prop'])
            if h is None:
                h = harnesses[req['prop']] = base.load_harness(req['prop'])
            r = base.concrete_run(h, req['unit'], req['inp'])
        except BaseException as e:      # noqa
            import traceback
            r = {'error': '%s: %s' % (type(e).__name__, e),
                 'tb': traceback.format_exc()[-1500:]}
        out.write(json.dumps(r) + '\n')
        out.flush()


if __name__ == '__main__':
    main()

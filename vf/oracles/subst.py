"""Reference model of $-substitution written from the property statement (C04).

Index loops and character-class predicates only: no regexes, no find/slice/offset
arithmetic shared with ZConfig.substitution.  Dual-mode (str and SymStr)."""
from ..symstr import char_is, char_in, is_ascii_alpha


def name_start(ch):
    return is_ascii_alpha(ch) or char_is(ch, '_')


def name_char(ch):
    return is_ascii_alpha(ch) or char_in(ch, '0', '9') or char_is(ch, '_')


def scan_name(s, p):
    """end index of the maximal name starting at p (p itself if none)"""
    n = len(s)
    if p >= n or not name_start(s[p]):
        return p
    q = p + 1
    while q < n and name_char(s[q]):
        q += 1
    return q


def isname(s):
    return len(s) > 0 and scan_name(s, 0) == len(s)


def lookup(mapping, key):
    for k, v in mapping.items():
        if k == key:
            return v
    return None


def reference(s, mapping, env, lower):
    """-> ('ok', text) | ('error', syntax_possible, [(missing name, case must be kept?) in reading order])

    After a missing name the scan continues (as if replaced by nothing) only to learn
    whether a syntax error or further missing names exist too; the property does not say
    which of several simultaneous errors is reported, so any of them is acceptable."""
    out = ''
    missing = []
    p = 0
    n = len(s)
    while p < n:
        ch = s[p]
        if not char_is(ch, '$'):
            out = out + ch
            p += 1
            continue
        if p + 1 >= n:
            return ('error', True, missing)            # trailing lone '$'
        nx = s[p + 1]
        if char_is(nx, '$'):
            out = out + '$'
            p += 2
            continue
        if char_is(nx, '{') or char_is(nx, '('):
            env_ref = bool(char_is(nx, '('))
            q = scan_name(s, p + 2)
            if q == p + 2:
                return ('error', True, missing)        # no name after the opener
            closer = ')' if env_ref else '}'
            if q >= n or not char_is(s[q], closer):
                return ('error', True, missing)        # unterminated
            name = s[p + 2:q]
            exact = env_ref          # environment names are case-sensitive: "with its case preserved"
            if env_ref:
                v = lookup(env, name)
            else:
                v = lookup(mapping, lower(name))
            p = q + 1
        else:
            q = scan_name(s, p + 1)
            if q == p + 1:
                return ('error', True, missing)        # '$' followed by anything else
            name = s[p + 1:q]
            exact = False
            v = lookup(mapping, lower(name))
            p = q
        if v is None:
            missing.append((name, exact))
        else:
            out = out + v
    if missing:
        return ('error', False, missing)
    return ('ok', out)

"""Reference model for C01 (accepted iff conforming) and C02 (the typed value tree),
working from the schema *description* (gen.View) and the event stream of the line-grammar
reference.  Dual-mode (str / SymStr tokens).

evaluate(view, events) -> ('ok', tree) | ('reject',) | ('any',)

tree:  ('S', type|None, name|None, [(attr, val), ...])   val: None | scalar | ('L', [...]) |
       ('T', ...) | ('M', [(key, val), ...]) | tree | ('W', tree)
"""
from . import dtspec
from ..gen import WRAP, WRAP2


class Reject(Exception):
    """lineno: the line the property holds responsible (None: no single line, e.g. a
    top-level requirement found unmet at end of input); what: fault kind"""

    def __init__(self, lineno=None, what='reject', value=None):
        self.lineno = lineno
        self.what = what
        self.value = value


class Any(Exception):
    """documentation silent for this region: any outcome accepted"""


def norm_key(keytype, key, lineno=None):
    try:
        return dtspec.TABLE[keytype](key)
    except dtspec.Bad:
        raise Reject(lineno, 'conversion', key)
    except dtspec.DontCare:
        raise Any()


def convert(dt, value, lineno=None):
    if dt == WRAP:
        return ('W', value)
    if dt == WRAP2:
        return ('W2', value)
    try:
        v = dtspec.TABLE[dt](value)
    except dtspec.Bad:
        raise Reject(lineno, 'conversion', value)
    except dtspec.DontCare:
        raise Any()
    return pyval(v)


def pyval(v):
    if isinstance(v, list):
        return ('L', [pyval(x) for x in v])
    if isinstance(v, tuple):
        return ('T',) + tuple(pyval(x) for x in v)
    return v


class State:
    def __init__(self, view, cont, typename, secname):
        self.view = view
        self.cont = cont
        self.typename = typename
        self.secname = secname
        self.items = cont['items']
        self.vals = []
        for it in self.items:
            if it['kind'] in ('key', 'multikey') and it['name'] == '+':
                self.vals.append([])            # [(normkey, value | [values])]
            elif it['kind'] in ('multikey', 'multisection'):
                self.vals.append([])
            else:
                self.vals.append(None)
        self.names = []

    # ---------------------------------------------------------------- keys
    def add_value(self, key, value, lineno=None):
        realkey = norm_key(self.cont['keytype'], key, lineno)
        value = (value, lineno)
        wild = None
        hit = None
        for idx, it in enumerate(self.items):
            if it['kind'] in ('key', 'multikey'):
                if it['name'] == '+':
                    wild = idx
                    continue
                # declared names were normalised by the key type when the schema was read
                if norm_key(self.cont['keytype'], it['name']) == realkey:
                    hit = idx
                    break
            elif it['name'] not in ('*', '+'):
                if norm_key(self.cont['keytype'], it['name']) == realkey:
                    # a key line spelling the fixed name of a section slot
                    if any(x['kind'] in ('key', 'multikey') and x['name'] == '+' for x in self.items):
                        raise Any()
                    raise Reject(lineno, 'key-is-section-name')
        if hit is None:
            if wild is None:
                raise Reject(lineno, 'unknown-key')
            it = self.items[wild]
            pairs = self.vals[wild]
            found = None
            for p in pairs:
                if p[0] == realkey:
                    found = p
                    break
            if it['kind'] == 'key':
                if found is not None:
                    raise Reject(lineno, 'repeated-key')
                pairs.append([realkey, value])
            else:
                if found is not None:
                    found[1].append(value)
                else:
                    pairs.append([realkey, [value]])
            return
        it = self.items[hit]
        if it['kind'] == 'key':
            if self.vals[hit] is not None:
                raise Reject(lineno, 'repeated-key')
            self.vals[hit] = ('v', value)
        else:
            self.vals[hit].append(value)

    # ---------------------------------------------------------------- sections
    def _fits(self, it, type_, name):
        """does slot `it` fully fit (type and name rule)?"""
        if it['kind'] not in ('section', 'multisection'):
            return False
        st = it['type']
        if st in self.view.abstract:
            ok = False
            for impl in self.view.abstract[st]:
                if impl == type_:
                    ok = True
            if not ok:
                return False
        elif not (st == type_):
            return False
        if it['name'] == '*':
            return True
        if it['name'] == '+':
            return name is not None
        return name is not None and bool(norm_key(self.cont['keytype'], it['name']) == name)

    def find_slot(self, type_, name, lineno=None):
        """the slot the documented search picks: children in schema order; a child with a
        fixed name decides as soon as its name equals the section name; a '*'/'+' slot
        decides as soon as its type (or an implementer of its abstract type) matches."""
        if name is not None and (name == '*' or name == '+'):
            raise Reject(lineno, 'bad-section-name')
        verdict = None
        for idx, it in enumerate(self.items):
            fixed = it['name'] not in ('*', '+')
            if fixed:
                if name is None:
                    continue
                if not (norm_key(self.cont['keytype'], it['name']) == name):
                    continue
                if it['kind'] in ('key', 'multikey'):
                    verdict = ('reject', idx)
                    break
                if self._fits(it, type_, name):
                    verdict = ('ok', idx)
                else:
                    verdict = ('reject', idx)
                break
            if it['kind'] in ('key', 'multikey'):
                continue
            st = it['type']
            if st in self.view.abstract:
                impl = False
                for x in self.view.abstract[st]:
                    if x == type_:
                        impl = True
                if not impl:
                    continue
            elif not (st == type_):
                continue
            if it['name'] == '+' and name is None:
                verdict = ('reject', idx)
            else:
                verdict = ('ok', idx)
            break
        if verdict is not None and verdict[0] == 'ok':
            return verdict[1]
        # rejected by the search order: if some other slot fits completely the statement
        # ("fits a declared slot") and the search disagree -> unspecified
        for idx, it in enumerate(self.items):
            if verdict is not None and idx == verdict[1]:
                continue
            if self._fits(it, type_, name):
                raise Any()
        raise Reject(lineno, 'misplaced-section')

    def add_section(self, idx, name, value, lineno=None):
        if name is not None:
            for n in self.names:
                if n == name:
                    raise Reject(lineno, 'section-name-reused')
            self.names.append(name)
        it = self.items[idx]
        if it['kind'] == 'multisection':
            self.vals[idx].append(value)
        else:
            if self.vals[idx] is not None:
                raise Reject(lineno, 'surplus-section')
            self.vals[idx] = ('s', value)

    # ---------------------------------------------------------------- finish
    def finish(self, lineno=None):
        """lineno: the closing line of this section (None for the top level).  First the
        occurrence requirements of every item (a missing item is revealed by the closing
        line), then the conversions (an unconvertible value is blamed on its own line)."""
        view = self.view
        kt = self.cont['keytype']
        staged = []
        for idx, it in enumerate(self.items):
            v = self.vals[idx]
            k = it['kind']
            if k in ('key', 'multikey') and it['name'] == '+':
                defaults = it.get('defaults', [])
                if it['required'] and not v:
                    # "every required ... wildcard map ... is filled": by the text - schema defaults
                    # do not satisfy a required wildcard map (they only apply to optional ones)
                    raise Reject(lineno, 'missing-item')
                pairs = v
                if not pairs:
                    pairs = []
                    for dk, dv in defaults:
                        nk = norm_key(kt, dk)
                        for p in pairs:
                            if p[0] == nk:
                                if k == 'key':
                                    raise Reject(lineno, 'schema-default-collision')
                                p[1].append((dv, None))
                                break
                        else:
                            pairs.append([nk, (dv, None) if k == 'key' else [(dv, None)]])
                staged.append(('wild', pairs))
            elif k == 'key':
                if v is None:
                    if it['required']:
                        raise Reject(lineno, 'missing-item')
                    staged.append(('one', (it['default'], None) if it.get('default') is not None else None))
                else:
                    staged.append(('one', v[1]))
            elif k == 'multikey':
                vals = v if v else [(d, None) for d in it.get('defaults', [])]
                if it['required'] and not vals:
                    raise Reject(lineno, 'missing-item')
                staged.append(('many', vals))
            elif k == 'section':
                if v is None and it['required']:
                    raise Reject(lineno, 'missing-item')
                staged.append(('sect', None if v is None else v[1]))
            else:
                if it['required'] and not v:
                    raise Reject(lineno, 'missing-item')
                staged.append(('sects', list(v)))
        out = []
        for idx, it in enumerate(self.items):
            attr = view.attr_of(it)
            kind, payload = staged[idx]
            dt = it.get('dt')
            if kind == 'wild':
                if it['kind'] == 'key':
                    val = ('M', [(p[0], convert(dt, p[1][0], p[1][1])) for p in payload])
                else:
                    val = ('M', [(p[0], ('L', [convert(dt, x[0], x[1]) for x in p[1]]))
                                 for p in payload])
            elif kind == 'one':
                val = None if payload is None else convert(dt, payload[0], payload[1])
            elif kind == 'many':
                val = ('L', [convert(dt, x[0], x[1]) for x in payload])
            elif kind == 'sect':
                val = payload
            else:
                val = ('L', payload)
            out.append((attr, val))
        tree = ('S', self.typename, self.secname, out)
        if self.cont.get('datatype') == WRAP:
            tree = ('W', tree)
        elif self.cont.get('datatype') == WRAP2:
            tree = ('W2', tree)
        return tree


def evaluate(view, events, where=None, partial=False, packages=None):
    """packages: {importable package name: schema-description fragment} for '%import' lines;
    an import extends the vocabulary from that line on, for this evaluation only"""
    if packages is not None:
        view = view.clone()
    imported = []
    """where: per-event line numbers (from linegrammar.parse(want_lines=True)); when given a
    rejection is reported as ('reject', lineno, what, offending_value)"""
    def at(i):
        return where[i] if where is not None else None
    try:
        top = State(view, view.top, None, None)
        stack = []
        cur = top
        for i, ev in enumerate(events):
            if ev[0] == 'kv':
                cur.add_value(ev[2], ev[3], at(i))
            elif ev[0] == 'start':
                t, nm = ev[2], ev[3]
                tname = None
                for cand in view.types:
                    if cand == t:
                        tname = cand
                        break
                if tname is None:
                    # unknown type, or an abstract type named directly
                    raise Reject(at(i), 'unknown-section-type')
                idx = cur.find_slot(tname, nm, at(i))
                stack.append((cur, idx))
                cur = State(view, view.types[tname], tname, nm)
            elif ev[0] == 'end':
                child = cur
                value = child.finish(at(i))
                cur, idx = stack.pop()
                cur.add_section(idx, child.secname, value, at(i))
            elif ev[0] == 'import':
                if packages is None:
                    raise Any()
                pk = None
                for name in packages:
                    if ev[1] == name:
                        pk = name
                if pk is None:
                    raise Reject(at(i), 'bad-import')
                # a component may import further components (transitively, cycles allowed)
                todo = [pk]
                while todo:
                    q = todo.pop()
                    if q in imported:
                        continue
                    imported.append(q)
                    if packages[q].get('broken'):
                        # a component that is not a valid schema fragment: the importing line is refused
                        raise Reject(at(i), 'bad-import')
                    view.add_component(packages[q])
                    todo += list(packages[q].get('imports', ()))
            elif ev[0] == 'include':
                raise Any()
        if partial:
            return ('ok', None)       # the text goes on (or fails) after these events
        return ('ok', top.finish(None))
    except Reject as e:
        if where is not None:
            return ('reject', e.lineno, e.what, e.value)
        return ('reject',)
    except Any:
        return ('any',)

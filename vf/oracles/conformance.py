"""Reference model for C01 (accepted iff conforming) and C02 (the typed value tree),
working from the schema *description* (gen.View) and the event stream of the line-grammar
reference.  Dual-mode (str / SymStr tokens).

evaluate(view, events) -> ('ok', tree) | ('reject',) | ('any',)

tree:  ('S', type|None, name|None, [(attr, val), ...])   val: None | scalar | ('L', [...]) |
       ('T', ...) | ('M', [(key, val), ...]) | tree | ('W', tree)
"""
from . import dtspec
from ..gen import WRAP


class Reject(Exception):
    pass


class Any(Exception):
    """documentation silent for this region: any outcome accepted"""


def norm_key(keytype, key):
    try:
        return dtspec.TABLE[keytype](key)
    except dtspec.Bad:
        raise Reject()
    except dtspec.DontCare:
        raise Any()


def convert(dt, value):
    if dt == WRAP:
        return ('W', value)
    try:
        v = dtspec.TABLE[dt](value)
    except dtspec.Bad:
        raise Reject()
    except dtspec.DontCare:
        raise Any()
    return pyval(v)


def pyval(v):
    if isinstance(v, list):
        return ('L', [pyval(x) for x in v])
    if isinstance(v, tuple):
        return ('T',) + tuple(pyval(x) for x in v)
    return v


class State:
    def __init__(self, view, cont, typename, secname):
        self.view = view
        self.cont = cont
        self.typename = typename
        self.secname = secname
        self.items = cont['items']
        self.vals = []
        for it in self.items:
            if it['kind'] in ('key', 'multikey') and it['name'] == '+':
                self.vals.append([])            # [(normkey, value | [values])]
            elif it['kind'] in ('multikey', 'multisection'):
                self.vals.append([])
            else:
                self.vals.append(None)
        self.names = []

    # ---------------------------------------------------------------- keys
    def add_value(self, key, value):
        realkey = norm_key(self.cont['keytype'], key)
        wild = None
        hit = None
        for idx, it in enumerate(self.items):
            if it['kind'] in ('key', 'multikey'):
                if it['name'] == '+':
                    wild = idx
                    continue
                # declared names were normalised by the key type when the schema was read
                if norm_key(self.cont['keytype'], it['name']) == realkey:
                    hit = idx
                    break
            elif it['name'] not in ('*', '+'):
                if norm_key(self.cont['keytype'], it['name']) == realkey:
                    # a key line spelling the fixed name of a section slot
                    if any(x['kind'] in ('key', 'multikey') and x['name'] == '+' for x in self.items):
                        raise Any()
                    raise Reject()
        if hit is None:
            if wild is None:
                raise Reject()
            it = self.items[wild]
            pairs = self.vals[wild]
            found = None
            for p in pairs:
                if p[0] == realkey:
                    found = p
                    break
            if it['kind'] == 'key':
                if found is not None:
                    raise Reject()
                pairs.append([realkey, value])
            else:
                if found is not None:
                    found[1].append(value)
                else:
                    pairs.append([realkey, [value]])
            return
        it = self.items[hit]
        if it['kind'] == 'key':
            if self.vals[hit] is not None:
                raise Reject()
            self.vals[hit] = ('v', value)
        else:
            self.vals[hit].append(value)

    # ---------------------------------------------------------------- sections
    def _fits(self, it, type_, name):
        """does slot `it` fully fit (type and name rule)?"""
        if it['kind'] not in ('section', 'multisection'):
            return False
        st = it['type']
        if st in self.view.abstract:
            ok = False
            for impl in self.view.abstract[st]:
                if impl == type_:
                    ok = True
            if not ok:
                return False
        elif not (st == type_):
            return False
        if it['name'] == '*':
            return True
        if it['name'] == '+':
            return name is not None
        return name is not None and bool(norm_key(self.cont['keytype'], it['name']) == name)

    def find_slot(self, type_, name):
        """the slot the documented search picks: children in schema order; a child with a
        fixed name decides as soon as its name equals the section name; a '*'/'+' slot
        decides as soon as its type (or an implementer of its abstract type) matches."""
        if name is not None and (name == '*' or name == '+'):
            raise Reject()
        verdict = None
        for idx, it in enumerate(self.items):
            fixed = it['name'] not in ('*', '+')
            if fixed:
                if name is None:
                    continue
                if not (norm_key(self.cont['keytype'], it['name']) == name):
                    continue
                if it['kind'] in ('key', 'multikey'):
                    verdict = ('reject', idx)
                    break
                if self._fits(it, type_, name):
                    verdict = ('ok', idx)
                else:
                    verdict = ('reject', idx)
                break
            if it['kind'] in ('key', 'multikey'):
                continue
            st = it['type']
            if st in self.view.abstract:
                impl = False
                for x in self.view.abstract[st]:
                    if x == type_:
                        impl = True
                if not impl:
                    continue
            elif not (st == type_):
                continue
            if it['name'] == '+' and name is None:
                verdict = ('reject', idx)
            else:
                verdict = ('ok', idx)
            break
        if verdict is not None and verdict[0] == 'ok':
            return verdict[1]
        # rejected by the search order: if some other slot fits completely the statement
        # ("fits a declared slot") and the search disagree -> unspecified
        for idx, it in enumerate(self.items):
            if verdict is not None and idx == verdict[1]:
                continue
            if self._fits(it, type_, name):
                raise Any()
        raise Reject()

    def add_section(self, idx, name, value):
        if name is not None:
            for n in self.names:
                if n == name:
                    raise Reject()
            self.names.append(name)
        it = self.items[idx]
        if it['kind'] == 'multisection':
            self.vals[idx].append(value)
        else:
            if self.vals[idx] is not None:
                raise Reject()
            self.vals[idx] = ('s', value)

    # ---------------------------------------------------------------- finish
    def finish(self):
        out = []
        view = self.view
        for idx, it in enumerate(self.items):
            attr = view.attr_of(it)
            v = self.vals[idx]
            k = it['kind']
            if k in ('key', 'multikey') and it['name'] == '+':
                defaults = it.get('defaults', [])
                if it['required'] and not v:
                    if defaults:
                        raise Any()
                    raise Reject()
                pairs = v
                if not pairs:
                    pairs = []
                    for dk, dv in defaults:
                        nk = norm_key(self.cont['keytype'], dk)
                        for p in pairs:
                            if p[0] == nk:
                                if k == 'key':
                                    raise Reject()
                                p[1].append(dv)
                                break
                        else:
                            pairs.append([nk, dv if k == 'key' else [dv]])
                if k == 'key':
                    val = ('M', [(p[0], convert(it['dt'], p[1])) for p in pairs])
                else:
                    val = ('M', [(p[0], ('L', [convert(it['dt'], x) for x in p[1]])) for p in pairs])
            elif k == 'key':
                if v is None:
                    if it['required']:
                        raise Reject()
                    val = convert(it['dt'], it['default']) if it.get('default') is not None else None
                else:
                    val = convert(it['dt'], v[1])
            elif k == 'multikey':
                vals = v if v else list(it.get('defaults', []))
                if it['required'] and not vals:
                    raise Reject()
                val = ('L', [convert(it['dt'], x) for x in vals])
            elif k == 'section':
                if v is None:
                    if it['required']:
                        raise Reject()
                    val = None
                else:
                    val = v[1]
            else:
                if it['required'] and not v:
                    raise Reject()
                val = ('L', list(v))
            out.append((attr, val))
        tree = ('S', self.typename, self.secname, out)
        if self.cont.get('datatype') == WRAP:
            tree = ('W', tree)
        return tree


def evaluate(view, events):
    try:
        top = State(view, view.top, None, None)
        stack = []
        cur = top
        for ev in events:
            if ev[0] == 'kv':
                cur.add_value(ev[2], ev[3])
            elif ev[0] == 'start':
                t, nm = ev[2], ev[3]
                tname = None
                for cand in view.types:
                    if cand == t:
                        tname = cand
                        break
                if tname is None:
                    raise Reject()          # unknown type, or an abstract type named directly
                idx = cur.find_slot(tname, nm)
                stack.append((cur, idx))
                cur = State(view, view.types[tname], tname, nm)
            elif ev[0] == 'end':
                child = cur
                value = child.finish()
                cur, idx = stack.pop()
                cur.add_section(idx, child.secname, value)
            elif ev[0] in ('import', 'include'):
                raise Any()
        return ('ok', top.finish())
    except Reject:
        return ('reject',)
    except Any:
        return ('any',)

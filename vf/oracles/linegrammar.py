"""Reference model of the configuration line grammar (C03), written from the statement.
Index loops and character predicates; no regular expressions.  Dual-mode (str / SymStr).

parse(lines, mode) -> ('ok', events, defines) | ('syntax',) | ('subst-syntax',) | ('notimpl',)
events (mode 'record'):
   ('start', parent_id, type, name) ('end', parent_id, type, name, sect_id)
   ('kv', sect_id, key, value, lineno) ('import', pkg) ('include', sect_id, rel)
"""
from ..symstr import char_is, is_space
from . import subst


class AList:
    """association list with the mapping protocol the oracles need; keys are compared with
    ==, never hashed, so it works for symbolic strings too"""

    def __init__(self, pairs=()):
        self.pairs = [list(p) for p in pairs]

    def items(self):
        return [(k, v) for k, v in self.pairs]

    def find(self, key):
        for p in self.pairs:
            if p[0] == key:
                return p
        return None

    def set(self, key, value):
        p = self.find(key)
        if p is None:
            self.pairs.append([key, value])
        else:
            p[1] = value


class Reject(Exception):
    def __init__(self, kind):
        self.kind = kind


def name_char(ch):
    """neither whitespace nor parenthesis"""
    return not (is_space(ch) or char_is(ch, '(', ')'))


def run_end(s, p):
    n = len(s)
    q = p
    while q < n and name_char(s[q]):
        q += 1
    return q


def skip_ws(s, p):
    n = len(s)
    while p < n and is_space(s[p]):
        p += 1
    return p


def key_value(s):
    """-> (key, value) or None: key = maximal leading run of name chars (non-empty),
    value = the rest after optional whitespace ('' when absent)"""
    q = run_end(s, 0)
    if q == 0:
        return None
    p = skip_ws(s, q)
    return s[:q], s[p:]


def header(s):
    """'type' or 'type  name' (nothing else) -> (type, name|None) or None"""
    q = run_end(s, 0)
    if q == 0:
        return None
    if q == len(s):
        return s[:q], None
    p = skip_ws(s, q)
    if p == q:
        return None            # a parenthesis follows the type
    r = run_end(s, p)
    if r == p or r != len(s):
        return None
    return s[:q], s[p:r]


def expand(text, defines):
    r = subst.reference(text, defines, {}, lambda x: x.lower())
    if r[0] == 'ok':
        return r[1]
    # several simultaneous errors: the parser reads left to right, so does the reference;
    # harness lines are short enough that the first error decides (see harness notes)
    if r[2] and r[1]:
        raise Reject('either')          # a missing name and a malformed construct: unordered
    if r[2]:
        raise Reject('syntax')          # missing name: a ConfigurationSyntaxError subclass
    raise Reject('subst-syntax')


def parse(lines, mode='record', defines=None, want_lines=False):
    """want_lines: also return, per event, the 1-based number of the line that produced it;
    a rejection then carries the number of the offending line: (kind, lineno)"""
    events = []
    where = []
    defines = AList() if defines is None else defines
    stack = []            # (type, name, parent_id)
    cur = 0
    nsect = 0
    lineno = 0
    try:
        for raw in lines:
            lineno += 1
            line = raw.strip()
            if len(line) == 0 or char_is(line[0], '#'):
                continue
            if char_is(line[0], '<'):
                closing = len(line) >= 2 and char_is(line[1], '/')
                if not char_is(line[len(line) - 1], '>'):
                    raise Reject('syntax')
                if closing:
                    if len(line) < 3:
                        raise Reject('syntax')          # '</' alone never ends with '>' anyway
                    inner = line[2:len(line) - 1].rstrip()
                    if not stack:
                        raise Reject('syntax')
                    t, nm, parent = stack.pop()
                    if not (inner.lower() == t):
                        raise Reject('syntax')
                    events.append(('end', parent, t, nm, cur))
                    where.append(lineno)
                    cur = parent
                    continue
                inner = line[1:len(line) - 1]
                empty = len(inner) > 0 and bool(char_is(inner[len(inner) - 1], '/'))
                if empty:
                    inner = inner[:len(inner) - 1]
                inner = inner.rstrip()
                h = header(inner)
                if h is None:
                    raise Reject('syntax')
                t = h[0].lower()
                nm = h[1].lower() if h[1] is not None else None
                nsect += 1
                events.append(('start', cur, t, nm))
                where.append(lineno)
                if empty:
                    events.append(('end', cur, t, nm, nsect))
                    where.append(lineno)
                else:
                    stack.append((t, nm, cur))
                    cur = nsect
                continue
            if char_is(line[0], '%'):
                kv = key_value(line[1:])
                if kv is None:
                    raise Reject('syntax')
                name, arg = kv
                if name == 'define':
                    which = 'define'
                elif name == 'import':
                    which = 'import'
                elif name == 'include':
                    which = 'include'
                else:
                    raise Reject('syntax')
                if len(arg) == 0:
                    raise Reject('syntax')
                if which == 'import':
                    events.append(('import', expand(arg.strip(), defines)))
                    where.append(lineno)
                elif which == 'include':
                    rel = expand(arg.strip(), defines)
                    if mode == 'schemaless':
                        raise Reject('notimpl')
                    events.append(('include', cur, rel))
                    where.append(lineno)
                else:
                    if mode == 'schemaless':
                        raise Reject('notimpl')
                    define(arg, defines)
                continue
            kv = key_value(line)
            if kv is None:
                raise Reject('syntax')
            key, value = kv
            if len(value) > 0:
                value = expand(value, defines)
            events.append(('kv', cur, key, value, lineno))
            where.append(lineno)
        if stack:
            raise Reject('syntax')
    except Reject as e:
        if want_lines:
            # the events read before the offending line are kept: a conformance fault on an
            # earlier line is reported first by a reader that works in reading order
            return (e.kind, lineno, events, where)
        return (e.kind,)
    if want_lines:
        return ('ok', events, [(k, v) for k, v in defines.items()], where)
    return ('ok', events, [(k, v) for k, v in defines.items()])


def define(arg, defines):
    """'%define' argument: name, optional value.  C05: case-insensitive names, legal names
    only, re-definition accepted exactly when the new *expanded* value equals the current
    value, value expanded once using earlier definitions."""
    q = 0
    n = len(arg)
    while q < n and not is_space(arg[q]):
        q += 1
    name = arg[:q].lower()
    p = skip_ws(arg, q)
    raw = arg[p:]
    if not subst.isname(name):
        raise Reject('syntax')
    found = defines.find(name)
    try:
        new = expand(raw, defines)
    except Reject:
        if found is not None:
            raise Reject('either')      # re-definition whose value does not even expand
        raise
    if found is not None:
        if not (found[1] == new):
            raise Reject('syntax')
        return
    defines.set(name, new)


def tree(events):
    """events -> nested structure as the schema-less loader builds it:
    (type, name, [(key, [values...]) in first-seen order], [sections], [imports])"""
    nodes = {0: ['', '', [], [], []]}
    order = {0: []}
    n = 0
    imports = []
    for ev in events:
        if ev[0] == 'start':
            n += 1
            nodes[n] = [ev[2], ev[3], [], [], []]
            nodes[ev[1]][3].append(n)
        elif ev[0] == 'kv':
            items = nodes[ev[1]][2]
            for it in items:
                if it[0] == ev[2]:
                    it[1].append(ev[3])
                    break
            else:
                items.append((ev[2], [ev[3]]))
        elif ev[0] == 'import':
            for x in imports:
                if x == ev[1]:
                    break
            else:
                imports.append(ev[1])

    def build(i):
        t, nm, items, subs, _ = nodes[i]
        return (t, nm, [(k, list(v)) for k, v in items], [build(j) for j in subs])
    return (build(0), imports)

"""Reference contracts of the standard datatypes (C09), written from
docs/standard-datatypes.rst and the property statement.  Index loops and character
predicates only.  Dual-mode (str / SymStr).

Each reference returns the converted value, raises Bad (the datatype must raise ValueError)
or raises DontCare (the documentation is silent for this region: any outcome accepted)."""
from ..symstr import (char_is, char_in, is_ascii_alpha, is_ascii_digit, is_dec_digit, dec_value,
                      is_space, is_hex_digit, is_int_space)


class Bad(Exception):
    pass


class DontCare(Exception):
    pass


class TypeErr(Exception):
    """the datatype must raise TypeError (timedelta: unknown unit letter)"""


class AnyError(Exception):
    """several faults of different kinds: ValueError or TypeError, the documentation does not rank them"""


# ------------------------------------------------------------------ character classes
def _alnum(ch):
    return is_ascii_alpha(ch) or is_ascii_digit(ch)


def _ident_start(ch):
    return is_ascii_alpha(ch) or char_is(ch, '_')


def _ident_char(ch):
    return _alnum(ch) or char_is(ch, '_')


def _ident_end(s, p):
    """end of the identifier starting at p, p if none"""
    n = len(s)
    if p >= n or not _ident_start(s[p]):
        return p
    q = p + 1
    while q < n and _ident_char(s[q]):
        q += 1
    return q


# ------------------------------------------------------------------ regex-shaped types
def basic_key(s):
    n = len(s)
    if n == 0 or not is_ascii_alpha(s[0]):
        raise Bad()
    for i in range(1, n):
        ch = s[i]
        if not (_alnum(ch) or char_is(ch, '-', '.', '_')):
            raise Bad()
    return s.lower()


def identifier(s):
    if len(s) == 0 or _ident_end(s, 0) != len(s):
        raise Bad()
    return s


def _dotted_from(s, p):
    """s[p:] is ident('.'ident)*"""
    n = len(s)
    q = _ident_end(s, p)
    if q == p:
        return False
    while q < n:
        if not char_is(s[q], '.'):
            return False
        r = _ident_end(s, q + 1)
        if r == q + 1:
            return False
        q = r
    return True


def dotted_name(s):
    if not _dotted_from(s, 0):
        raise Bad()
    return s


def dotted_suffix(s):
    if len(s) > 0 and char_is(s[0], '.'):
        if not _dotted_from(s, 1):
            raise Bad()
        return s
    return dotted_name(s)


# ------------------------------------------------------------------ integers
def parse_int(s):
    """Python's int(str): optional surrounding whitespace, optional sign, decimal digits
    with single underscores between digits"""
    n = len(s)
    a = 0
    while a < n and is_int_space(s[a]):
        a += 1
    b = n
    while b > a and is_int_space(s[b - 1]):
        b -= 1
    if a == b:
        raise Bad()
    neg = False
    if char_is(s[a], '+', '-'):
        neg = bool(char_is(s[a], '-'))
        a += 1
    if a == b:
        raise Bad()
    val = 0
    last_digit = False
    i = a
    while i < b:
        ch = s[i]
        if is_dec_digit(ch):
            val = val * 10 + dec_value(ch)
            last_digit = True
        elif char_is(ch, '_') and last_digit and i + 1 < b:
            last_digit = False
        else:
            raise Bad()
        i += 1
    if not last_digit:
        raise Bad()
    return -val if neg else val


def integer(s):
    return parse_int(s)


def port_number(s):
    v = parse_int(s)
    if v < 0 or v > 65535:
        raise Bad()
    return v


def boolean(s):
    low = s.lower()
    for w in ('yes', 'true', 'on'):
        if low == w:
            return True
    for w in ('no', 'false', 'off'):
        if low == w:
            return False
    raise Bad()


def _suffix(s, table, width):
    low = s.lower()
    n = len(low)
    if n >= width:
        tail = low[n - width:]
        for suf, mult in table:
            if tail == suf:
                return parse_int(low[:n - width]) * mult
    return parse_int(low)


def byte_size(s):
    return _suffix(s, (('kb', 1024), ('mb', 1024 * 1024), ('gb', 1024 * 1024 * 1024)), 2)


def time_interval(s):
    return _suffix(s, (('s', 1), ('m', 60), ('h', 3600), ('d', 86400)), 1)


def string_list(s):
    out = []
    n = len(s)
    i = 0
    while i < n:
        while i < n and is_space(s[i]):
            i += 1
        if i >= n:
            break
        j = i
        while j < n and not is_space(s[j]):
            j += 1
        out.append(s[i:j])
        i = j
    return out


# ------------------------------------------------------------------ inet addresses
def _count(s, c):
    k = 0
    for ch in s:
        if char_is(ch, c):
            k += 1
    return k


def _words(s):
    return len(string_list(s))


def inet_address(s, default_host):
    """(host, port).  Documented forms: 'port', 'host', 'host:port', ':port', 'host:',
    '[v6]:port', and an unbracketed IPv6 address (more than one colon) which is all host."""
    ncolon = _count(s, ':')
    if _count(s, '[') or _count(s, ']'):
        # only the exact bracket form [addr]:port is specified
        n = len(s)
        close = -1
        for i in range(n):
            if char_is(s[i], ']'):
                close = i
                break
        if not (n >= 3 and char_is(s[0], '[') and close >= 1 and close + 1 < n
                and char_is(s[close + 1], ':')):
            raise DontCare()
        inner = s[1:close]
        rest = s[close + 2:]
        if _count(inner, '[') or _count(rest, ']') or _count(rest, '[') or _count(rest, ':'):
            raise DontCare()
        host = inner.lower()
        port = port_number(rest) if len(rest) > 0 else None
        return (host if len(host) > 0 else default_host, port)
    if ncolon == 0:
        try:
            v = parse_int(s)
        except Bad:
            if _words(s) != 1:
                raise Bad()
            return (s.lower(), None)
        if v < 0 or v > 65535:
            raise DontCare()           # a number that is no port: error or host name, unspecified
        return (default_host, v)
    if ncolon == 1:
        n = len(s)
        k = 0
        while not char_is(s[k], ':'):
            k += 1
        host = s[:k].lower()
        rest = s[k + 1:]
        port = port_number(rest) if len(rest) > 0 else None
        return (host if len(host) > 0 else default_host, port)
    # unbracketed IPv6: the whole string is the host
    return (s.lower(), None)


def socket_address(s, default_host):
    if _count(s, '/'):
        return ('AF_UNIX', s)
    host, port = inet_address(s, default_host)
    if _count(host, ':'):
        return ('AF_INET6', (host, port))
    return ('AF_INET', (host, port))


# ------------------------------------------------------------------ ipaddr-or-hostname
def _octet_end(s, p):
    """end of a decimal octet 0..255 (1-3 ASCII digits) starting at p, or -1"""
    n = len(s)
    q = p
    val = 0
    while q < n and q - p < 3 and is_ascii_digit(s[q]):
        val = val * 10 + dec_value(s[q])
        q += 1
    if q == p:
        return -1
    if q < n and is_ascii_digit(s[q]):
        return -1                       # more than three digits
    if val > 255:
        return -1
    return q


def is_ipv4(s, p=0, end=None):
    n = len(s) if end is None else end
    q = p
    for k in range(4):
        q = _octet_end(s[:n], q)
        if q < 0:
            return False
        if k < 3:
            if q >= n or not char_is(s[q], '.'):
                return False
            q += 1
    return q == n


def _v4_tail(s):
    """dotted quad as inet_pton accepts it inside an IPv6 address: four octets 0..255 of
    1-3 ASCII digits, no leading zero in a multi-digit octet"""
    n = len(s)
    q = 0
    for k in range(4):
        p = q
        val = 0
        while q < n and is_ascii_digit(s[q]):
            val = val * 10 + dec_value(s[q])
            q += 1
        if q == p or q - p > 3:
            return False
        if q - p > 1 and char_is(s[p], '0'):
            return False
        if val > 255:
            return False
        if k < 3:
            if q >= n or not char_is(s[q], '.'):
                return False
            q += 1
    return q == n


def is_hostname(s):
    """letter or underscore first; letters, digits, '-', '_', '.' after; not ending in '.'"""
    n = len(s)
    if n == 0 or not (is_ascii_alpha(s[0]) or char_is(s[0], '_')):
        return False
    for i in range(1, n):
        ch = s[i]
        if not (_alnum(ch) or char_is(ch, '-', '_', '.')):
            return False
    return not char_is(s[n - 1], '.')


def is_ipv6(s):
    """RFC 4291 text form as accepted by inet_pton(AF_INET6): up to 8 groups of 1-4 hex
    digits separated by ':', at most one '::' standing for one or more zero groups, an
    optional dotted-quad IPv4 tail counting as two groups."""
    n = len(s)
    if n < 2:
        return False
    # tokens between colons
    parts = []
    start = 0
    for i in range(n):
        if char_is(s[i], ':'):
            parts.append((start, i))
            start = i + 1
    parts.append((start, n))
    if len(parts) < 2:
        return False                    # no colon at all
    # empty tokens: only as a leading/trailing pair belonging to '::' or one in the middle
    empties = [k for k, (a, b) in enumerate(parts) if a == b]
    m = len(parts)
    gap = False
    groups = 0
    k = 0
    # leading '::'
    if parts[0][0] == parts[0][1]:
        if m < 2 or parts[1][0] != parts[1][1]:
            return False                # starts with a single ':'
    if parts[m - 1][0] == parts[m - 1][1]:
        if parts[m - 2][0] != parts[m - 2][1]:
            return False                # ends with a single ':'
    # count '::' occurrences = runs of adjacent colons
    i = 0
    doubles = 0
    while i + 1 < n:
        if char_is(s[i], ':') and char_is(s[i + 1], ':'):
            doubles += 1
            if i + 2 < n and char_is(s[i + 2], ':'):
                return False            # ':::'
            i += 2
        else:
            i += 1
    if doubles > 1:
        return False
    for k, (a, b) in enumerate(parts):
        if a == b:
            continue
        last = (k == m - 1)
        tok = s[a:b]
        if last and _count(tok, '.'):
            if not _v4_tail(tok):
                return False
            groups += 2
            continue
        if b - a > 4:
            return False
        for ch in tok:
            if not is_hex_digit(ch):
                return False
        groups += 1
    if doubles == 1:
        return groups <= 7
    return groups == 8


def ipaddr_or_hostname(s):
    n = len(s)
    if is_ipv4(s):
        return s.lower()
    if _count(s, ':'):
        if is_ipv6(s):
            return s.lower()
        raise Bad()
    if n == 1 and is_hostname(s):
        raise DontCare()                # one-character host names: not specified
    if is_hostname(s):
        return s.lower()
    raise Bad()


# ------------------------------------------------------------------ floats (exact rationals)
def _tokens(s):
    """classify the characters of a float literal: list of ('d', value) | ('_',) | ('.',) | ('e',) |
    ('s', negative?) | ('x',)"""
    out = []
    for ch in s:
        if is_dec_digit(ch):
            out.append(('d', dec_value(ch)))
        elif char_is(ch, '_'):
            out.append(('_',))
        elif char_is(ch, '.'):
            out.append(('.',))
        elif char_is(ch, 'e', 'E'):
            out.append(('e',))
        elif char_is(ch, '+', '-'):
            out.append(('s', bool(char_is(ch, '-'))))
        else:
            out.append(('x',))
    return out


def _word(s, w):
    if len(s) != len(w):
        return False
    for ch, c in zip(s, w):
        if not char_is(ch, c, c.upper()):
            return False
    return True


def parse_float(s):
    """Python's float(str) as exact arithmetic -> ('fin', Fraction | z3 Real) | ('inf',) | ('ninf',) |
    ('nan',); Bad when float() must raise ValueError.  Grammar (language reference, "Floating point
    literals" + float()): [ws] [sign] (digitpart ['.' [digitpart]] | '.' digitpart) [(e|E) [sign] digitpart] [ws]
    | [sign] ('inf' | 'infinity' | 'nan'), digitpart = digit (['_'] digit)*"""
    import fractions
    from .. import core
    n = len(s)
    a, b = 0, n
    while a < b and is_int_space(s[a]):
        a += 1
    while b > a and is_int_space(s[b - 1]):
        b -= 1
    s = s[a:b]
    if len(s) == 0:
        raise Bad()
    neg = False
    if char_is(s[0], '+', '-'):
        neg = bool(char_is(s[0], '-'))
        s = s[1:]
    if _word(s, 'inf') or _word(s, 'infinity'):
        return ('ninf',) if neg else ('inf',)
    if _word(s, 'nan'):
        return ('nan',)
    toks = _tokens(s)
    # split at the exponent marker and at the point
    epos = [i for i, t in enumerate(toks) if t[0] == 'e']
    if len(epos) > 1:
        raise Bad()
    mant = toks[:epos[0]] if epos else toks
    expo = toks[epos[0] + 1:] if epos else None
    ppos = [i for i, t in enumerate(mant) if t[0] == '.']
    if len(ppos) > 1:
        raise Bad()
    ipart = mant[:ppos[0]] if ppos else mant
    fpart = mant[ppos[0] + 1:] if ppos else []

    def digitpart(ts, may_be_empty):
        """-> list of digit values; underscores only between two digits"""
        if not ts:
            if may_be_empty:
                return []
            raise Bad()
        vals = []
        for i, t in enumerate(ts):
            if t[0] == 'd':
                vals.append(t[1])
            elif t[0] == '_' and 0 < i < len(ts) - 1 and ts[i - 1][0] == 'd' and ts[i + 1][0] == 'd':
                pass
            else:
                raise Bad()
        return vals
    iv = digitpart(ipart, True)
    fv = digitpart(fpart, True)
    if not iv and not fv:
        raise Bad()
    ex = 0
    if expo is not None:
        eneg = False
        if expo and expo[0][0] == 's':
            eneg = expo[0][1]
            expo = expo[1:]
        ev = digitpart(expo, False)
        for dgt in ev:
            k = 0
            while not (dgt == k):        # the exponent is made concrete (forks in symbolic mode)
                k += 1
            ex = ex * 10 + k
        if eneg:
            ex = -ex
    total = 0
    for dgt in iv + fv:
        total = total * 10 + dgt
    scale = fractions.Fraction(10) ** (ex - len(fv))
    if isinstance(total, int):
        val = total * scale
        over = val > 17976931348623157 * 10 ** 292
    else:
        val = core.real_term(total.e) * core.real_term(scale)
        over = core.mk(val > core.real_term(17976931348623157 * 10 ** 292))
    if over:
        return ('ninf',) if neg else ('inf',)
    return ('fin', -val if neg else val)


def float_(s):
    r = parse_float(s)
    if r[0] != 'fin':
        return ('nonfinite', r[0])
    from .. import core
    return ('fin', core.Approx(r[1], 0, '1/1000000000000'))


_UNITS = (('w', 604800), ('d', 86400), ('h', 3600), ('m', 60), ('s', 1))


def timedelta(s):
    """blank-separated parts '<float><unit letter>'; a unit given twice: the last one counts.
    -> Approx(total seconds).  Statement: every string maps to a value or ValueError, an unknown unit
    letter is a TypeError; no other exception (a non-finite or out-of-range amount is a ValueError)."""
    import fractions
    from .. import core
    parts = string_list(s)
    amounts = {}
    value_fault = unit_fault = False
    for part in parts:
        n = len(part)
        amount = None
        try:
            amount = parse_float(part[:n - 1])
        except Bad:
            value_fault = True
        unit = None
        for letter, secs in _UNITS:
            if char_is(part[n - 1], letter):
                unit = letter
        if unit is None:
            unit_fault = True
        elif amount is not None:
            amounts[unit] = amount
    if value_fault and unit_fault:
        raise AnyError()       # which of the two is reported first is not documented
    if value_fault:
        raise Bad()
    if unit_fault:
        raise TypeErr()
    total = 0
    symbolic = False
    for letter, secs in _UNITS:
        if letter in amounts:
            am = amounts[letter]
            if am[0] != 'fin':
                raise Bad()
            if isinstance(am[1], fractions.Fraction) or isinstance(am[1], int):
                total = total + am[1] * secs if not symbolic else total + core.real_term(am[1] * secs)
            else:
                if not symbolic:
                    total = core.real_term(total)
                    symbolic = True
                total = total + am[1] * core.real_term(secs)
    lim = 999999999 * 86400
    if symbolic:
        if core.mk(core.z3.Or(total < core.real_term(-lim), total >= core.real_term(lim + 86400))):
            raise Bad()
    elif total < -lim or total >= lim + 86400:
        raise Bad()
    return core.Approx(total, '1/1000000', '1/1000000000000')


# ------------------------------------------------------------------ dispatch
DEFAULTS = {'inet-address': '', 'inet-binding-address': '', 'inet-connection-address': '127.0.0.1',
            'socket-address': '', 'socket-binding-address': '', 'socket-connection-address': '127.0.0.1'}

TABLE = {
    'basic-key': basic_key, 'identifier': identifier, 'dotted-name': dotted_name,
    'dotted-suffix': dotted_suffix, 'integer': integer, 'port-number': port_number,
    'boolean': boolean, 'byte-size': byte_size, 'time-interval': time_interval,
    'string-list': string_list, 'string': lambda s: s, 'null': lambda s: s,
    'ipaddr-or-hostname': ipaddr_or_hostname,
    'float': float_, 'timedelta': timedelta,
}
for _n in ('inet-address', 'inet-binding-address', 'inet-connection-address'):
    TABLE[_n] = (lambda d: lambda s: inet_address(s, d))(DEFAULTS[_n])
for _n in ('socket-address', 'socket-binding-address', 'socket-connection-address'):
    TABLE[_n] = (lambda d: lambda s: socket_address(s, d))(DEFAULTS[_n])



def _app_key(s):
    """reference for vf.dtsupport.remember_key"""
    n = len(s)
    if n == 0 or not is_ascii_alpha(s[0]):
        raise Bad()
    for i in range(1, n):
        if not _alnum(s[i]):
            raise Bad()
    return s.lower()


def _app_int(s):
    """reference for vf.dtsupport.remember_int: ASCII digits only"""
    if len(s) == 0:
        raise Bad()
    for ch in s:
        if not is_ascii_digit(ch):
            raise Bad()
    return parse_int(s)


def _app_nested(s):
    if len(s) > 0 and is_ascii_digit(s[0]):
        return s
    raise Bad()


TABLE['vf.dtsupport.nested_conv'] = _app_nested
TABLE['vf.dtsupport.remember_key'] = _app_key
TABLE['vf.dtsupport.remember_int'] = _app_int

# key-type converters must be idempotent
KEY_NORMALISERS = ('basic-key', 'identifier', 'ipaddr-or-hostname', 'dotted-name', 'string')

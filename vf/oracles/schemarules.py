"""Reference model of the static rules of the schema language (C10), written from the
property statement and doc/schema.dtd.  Works on an event stream
    ('s', element, {attr: value}) | ('e', element) | ('c', text)
with symbolic attribute values (dual-mode str / SymStr).

check(events) -> 'accept' | 'reject' | 'any'
"""
from . import dtspec
from ..symstr import is_space

ALLOWED_PARENTS = {
    'description': ['key', 'section', 'multikey', 'multisection', 'sectiontype', 'abstracttype',
                    'schema', 'component'],
    'example': ['schema', 'sectiontype', 'key', 'multikey', 'section', 'multisection'],
    'metadefault': ['key', 'section', 'multikey', 'multisection'],
    'default': ['key', 'multikey'],
    'import': ['schema', 'component'],
    'abstracttype': ['schema', 'component'],
    'sectiontype': ['schema', 'component'],
    'key': ['schema', 'sectiontype'],
    'multikey': ['schema', 'sectiontype'],
    'section': ['schema', 'sectiontype'],
    'multisection': ['schema', 'sectiontype'],
}
CDATA = ('description', 'metadefault', 'example', 'default')
STOCK = ['boolean', 'dotted-name', 'dotted-suffix', 'identifier', 'integer', 'float', 'string',
         'string-list', 'null', 'locale', 'port-number', 'basic-key', 'inet-address',
         'inet-binding-address', 'inet-connection-address', 'socket-address',
         'socket-binding-address', 'socket-connection-address', 'ipaddr-or-hostname',
         'existing-directory', 'existing-path', 'existing-file', 'existing-dirpath', 'byte-size',
         'time-interval', 'timedelta']
KEYTYPES = {'basic-key': dtspec.basic_key, 'identifier': dtspec.identifier,
            'ipaddr-or-hostname': dtspec.ipaddr_or_hostname}


class Reject(Exception):
    pass


class Any(Exception):
    pass


def conv(f, v):
    try:
        return f(v)
    except dtspec.Bad:
        raise Reject()
    except dtspec.DontCare:
        raise Any()


def datatype_name(v):
    """a datatype attribute without '.' must be a stock name after basic-key normalisation"""
    for ch in v:
        if ch == '.':
            raise Any()                     # dotted names are imported: not modelled
    k = conv(dtspec.basic_key, v)
    for n in STOCK:
        if k == n:
            return n
    raise Reject()


def eq_any(x, names):
    for n in names:
        if x == n:
            return True
    return False


def required(attrs):
    if 'required' not in attrs:
        return False
    v = attrs['required']
    if v == 'yes':
        return True
    if v == 'no':
        return False
    raise Reject()


class Container:
    def __init__(self, name, keytype, abstract=False, base=None):
        self.name = name
        self.keytype = keytype
        self.abstract = abstract
        self.names = list(base.names) if base else []
        self.attrs = list(base.attrs) if base else []
        # wildcard keys with keyed defaults, own and inherited: (kind, raw default keys)
        self.wild = list(base.wild) if base else []

    def add_child(self, key, attr):
        if key is not None:
            if eq_any(key, self.names):
                raise Reject()
        if attr is not None:
            if eq_any(attr, self.attrs):
                raise Reject()
            self.attrs.append(attr)
        if key is not None:
            self.names.append(key)


def name_info(attrs, cont, default=None):
    """-> (any_name, name, attribute) following the rules for names and attributes"""
    name = attrs.get('name', default)
    if name is None or len(name) == 0:
        raise Reject()
    aname = attrs.get('attribute')
    if aname is not None and len(aname) > 0:
        aname = conv(dtspec.identifier, aname)
        if len(aname) >= 10 and aname[:10] == 'getSection':
            raise Reject()
    else:
        aname = None
    if name == '*' or name == '+':
        if aname is None:
            raise Reject()
        return name, None, aname
    name = conv(KEYTYPES[cont.keytype], name)
    if aname is None:
        a = conv(dtspec.basic_key, name)
        a = a.replace('-', '_')
        aname = conv(dtspec.identifier, a)
    return None, name, aname


def check(events, imports=None):
    """imports: {src: [(type name, abstract?)]} - what '<import src=...>' resources define"""
    try:
        _check(events, imports)
    except Reject:
        return 'reject'
    except Any:
        return 'any'
    return 'accept'


def _check(events, imports=None):
    elems = []
    types = {}          # name -> Container (concrete names only once decided)
    tnames = []         # list of (name, Container) with possibly symbolic names
    stack = []          # containers / key records
    schema = None
    in_cdata = False

    def find_type(n):
        for nm, c in tnames:
            if nm == n:
                return c
        return None

    for ev in events:
        if ev[0] == 'c':
            if in_cdata:
                continue
            text = ev[1]
            blank = True
            for ch in text:
                if not is_space(ch):
                    blank = False
            if not blank:
                raise Reject()
            continue
        if ev[0] == 'e':
            name = elems.pop()
            if name in CDATA:
                in_cdata = False
                if name == 'default':
                    rec = stack[-1]
                    _default(rec, rec.pop('pending_default_key', None), rec.pop('pending_has_key', False))
                continue
            if name in ('key', 'multikey'):
                rec = stack.pop()
                if rec['name'] == '+':
                    # defaults' keys are normalised by the container's key type and must not collide
                    seen = []
                    for k in rec['defaults']:
                        nk = conv(KEYTYPES[rec['cont'].keytype], k)
                        if rec['kind'] == 'key' and eq_any(nk, seen):
                            raise Reject()
                        seen.append(nk)
                    rec['cont'].wild.append((rec['kind'], list(rec['defaults'])))
            elif name in ('sectiontype', 'abstracttype', 'section', 'multisection'):
                stack.pop()
            elif name == 'schema':
                stack.pop()
            continue
        _, name, attrs = ev
        if elems:
            parent = elems[-1]
            if name not in ALLOWED_PARENTS:
                raise Reject()
            if parent not in ALLOWED_PARENTS[name]:
                raise Reject()
        elif name != 'schema':
            raise Reject()
        elems.append(name)
        if name == 'schema':
            kt = 'basic-key'
            if 'keytype' in attrs:
                kt = datatype_name(attrs['keytype'])
                if kt not in KEYTYPES:
                    raise Any()
            if 'datatype' in attrs:
                datatype_name(attrs['datatype'])
            inherited = None
            if 'extends' in attrs:
                ext = (imports or {}).get('__extends__', {})
                if not isinstance(attrs['extends'], str) or attrs['extends'] not in ext:
                    raise Any()
                inherited = ext[attrs['extends']]
                if 'keytype' not in attrs:
                    kt = inherited['keytype']       # the key type is inherited along the whole chain
            schema = Container(None, kt)
            if inherited is not None:
                for nm, an in inherited['children']:
                    schema.add_child(nm, an)
            stack.append(schema)
        elif name == 'abstracttype':
            n = attrs.get('name')
            if n is None or len(n) == 0:
                raise Reject()
            n = conv(dtspec.basic_key, n)
            if find_type(n) is not None:
                raise Reject()
            c = Container(n, None, abstract=True)
            tnames.append((n, c))
            stack.append(c)
        elif name == 'sectiontype':
            n = attrs.get('name')
            if n is None or len(n) == 0:
                raise Reject()
            n = conv(dtspec.basic_key, n)
            base = None
            if 'extends' in attrs:
                b = conv(dtspec.basic_key, attrs['extends'])
                base = find_type(b)
                if base is None or base.abstract:
                    raise Reject()
            kt = base.keytype if base is not None else 'basic-key'
            if 'keytype' in attrs:
                kt = datatype_name(attrs['keytype'])
                if kt not in KEYTYPES:
                    raise Any()
            if 'datatype' in attrs:
                datatype_name(attrs['datatype'])
            if find_type(n) is not None:
                raise Reject()
            c = Container(n, kt, base=base)
            # inherited wildcard defaults are normalised again under the derived type's key type: a key
            # the new key type refuses, or two keys of a single-valued wildcard it makes equal, is an error
            for kind, raw in c.wild:
                seen = []
                for k in raw:
                    nk = conv(KEYTYPES[kt], k)
                    if kind == 'key' and eq_any(nk, seen):
                        raise Reject()
                    seen.append(nk)
            if 'implements' in attrs:
                i = conv(dtspec.basic_key, attrs['implements'])
                it = find_type(i)
                if it is None or not it.abstract:
                    raise Reject()
            tnames.append((n, c))
            stack.append(c)
        elif name in ('key', 'multikey'):
            cont = stack[-1]
            if name == 'multikey' and 'default' in attrs:
                raise Reject()
            any_name, kname, aname = name_info(attrs, cont)
            if any_name == '*':
                raise Reject()
            if 'datatype' in attrs:
                datatype_name(attrs['datatype'])
            if 'handler' in attrs:
                conv(dtspec.basic_key, attrs['handler'])
            req = required(attrs)
            if name == 'key' and 'default' in attrs:
                if req:
                    raise Reject()
                if any_name == '+':
                    raise Reject()          # a wildcard key's defaults must be keyed
            cont.add_child(kname if kname is not None else any_name, aname)
            stack.append({'kind': name, 'name': kname if kname is not None else any_name,
                          'cont': cont, 'defaults': [], 'has_attr_default': 'default' in attrs})
        elif name in ('section', 'multisection'):
            cont = stack[-1]
            t = attrs.get('type')
            if t is None or len(t) == 0:
                raise Reject()
            if find_type(t.lower()) is None:
                raise Reject()
            if 'handler' in attrs:
                conv(dtspec.basic_key, attrs['handler'])
            required(attrs)
            any_name, sname, aname = name_info(attrs, cont, '*')
            if name == 'multisection' and any_name is None:
                raise Reject()
            cont.add_child(sname, aname)
            stack.append({'kind': name})
        elif name in CDATA:
            in_cdata = True
            if name == 'default':
                rec = stack[-1]
                rec['pending_default_key'] = attrs.get('key')
                rec['pending_has_key'] = 'key' in attrs
        elif name == 'import':
            src = attrs.get('src')
            if imports is None or not isinstance(src, str) or src not in imports or 'package' in attrs:
                raise Any()
            # the types of the imported schema are defined here, under the same rule of unique names
            for tn, abstract in imports[src]:
                if find_type(tn) is not None:
                    raise Reject()
                tnames.append((tn, Container(tn, 'basic-key', abstract=abstract)))
    if elems:
        raise Any()


def _default(rec, key, has_key):
    """a <default> child: keyed exactly when the key is a wildcard; single plain keys cannot
    take element defaults at all (their default is the attribute)"""
    if rec['name'] == '+':
        if key is None:
            raise Reject()
        if rec['kind'] == 'key' and eq_any(key, rec['defaults']):
            raise Reject()              # the same raw key twice
        rec['defaults'].append(key)
    else:
        if key is not None:
            raise Reject()
        if rec['kind'] == 'key':
            raise Reject()

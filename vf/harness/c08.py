"""C08 - a rejected configuration names the resource and line that caused the rejection.

A valid concrete text (main resource, optionally an included resource) in which one line is
replaced by a line with symbolic tokens, so every kind of single-line fault arises on some
path: unknown / repeated key, unconvertible key or value, unknown or misplaced header,
missing or surplus item revealed by the closing line (both '<t>...</t>' and '<t/>'),
undefined or malformed substitution, malformed syntax, bad directive.
The culprit line is computed by the reference oracle (reading order; requirements checked at
the closing line; an unconvertible value blamed on its own line); the assertion is
e.lineno == that line's 1-based number in ITS resource and e.url == that resource's URL."""
import z3

from ..base import Harness
from ..core import deep_eq
from .. import gen
from ..oracles import linegrammar as G, conformance as CF
from . import common, pipeline as P
from .c01 import VIEWS as _VIEWS01, XML as _XML01
from .. import dtsupport

# an application key type and datatype that raise a ValueError SUBCLASS and remember the instance: a
# conversion error must carry that very exception object
RK, RI = 'vf.dtsupport.remember_key', 'vf.dtsupport.remember_int'
SK = gen.schema(keytype=RK,
                types=[gen.stype('ta', [gen.key('ka', RI), gen.key('kn', 'vf.dtsupport.nested_conv'),
                                        gen.key('+', attr='any', dt=RI)], keytype=RK)],
                items=[gen.multisection('ta', '*', attr='xs'), gen.key('kt', RI),
                       gen.key('kn', 'vf.dtsupport.nested_conv'), gen.key('+', attr='any')])
XML = dict(_XML01)
VIEWS = dict(_VIEWS01)
XML['SK'] = gen.render(SK)
# a schema author's slip: a default its datatype refuses (converted when a section of the type is finished)
SB = gen.schema(types=[gen.stype('ta', [gen.key('ka', 'integer', default='ten'), gen.key('kb')])],
                items=[gen.multisection('ta', '*', attr='xs'), gen.key('kt')])
XML['SB'] = gen.render(SB)
VIEWS['SK'] = gen.View(SK)

W2 = ['w', 2]
V1 = ['v', 1]
V2 = ['v', 2]


def _layouts(tier):
    L = []
    pre = {'S2': ['kt 5']}
    # ---- S2, everything in the main resource
    sec = ['<ta n1>', '  ka 1', '  kb x', '</ta>']
    tbs = ['<tb>', '  ka 2', '</tb>']
    def main(lines):
        return [['main.conf', lines]]
    L += [
        ('S2', main(['kt 5', '<ta n1>', [W2, ' ', V1], '  kb x', '</ta>', 'zz top'])),       # key line replaced
        ('S2', main(['kt 5', '<ta n1>', '  ka 1', [W2, ' ', V2], '</ta>'] + tbs)),           # key line added
        ('S2', main(['# c', '', 'kt 5', ['<', W2, ' ', W2, '>'], '  ka 1', ['</', ('ref', 3, 1), '>'], 'zz t'])),
        ('S2', main(['kt 5'] + sec + [['<', W2, '/>'], 'zz top'])),                         # empty form, finish fails
        ('S2', main(['kt 5'] + sec + [['<', W2, ' ', W2, '/>']])),
        ('S2', main(['kt 5', '<ta n1>', '  ka 1', '</ta>', ['<ta ', W2, '>'], '  ka 3', '</ta>'])),  # name reuse
        ('S2', main(['kt 5'] + tbs + [['<', W2, '>'], '  ka 3', ['</', ('ref', 4, 1), '>']])),        # surplus section
        ('S2', main([['kt $', ['x', 2]], 'zz top'])),                                                 # substitution
        ('S2', main(['%define ab 7', ['kt $', W2], ['zz ${', W2, '}']])),
        ('S2', main(['kt 5', [['x', 4]], 'zz top'])),                                                 # arbitrary line
        ('S2', main(['kt 5', ['%', W2, ' x'], 'zz top'])),
        ('S2', main([[W2, ' ', V2], 'zz top'])),                                                      # top-level value
        # ---- included resource counts its own lines
        ('S2', [['main.conf', ['', 'kt 5', '%include inc.conf', 'zz top']],
                ['inc.conf', ['# inc', '<ta n1>', [W2, ' ', V1], '</ta>']]]),
        ('S2', [['main.conf', ['kt 5', '<ta n1>', '%include sub/inc.conf', '</ta>']],
                ['sub/inc.conf', ['', '', [W2, ' ', V1], 'kb y']]]),
        ('S2', [['main.conf', ['%include inc.conf', 'zz top']],
                ['inc.conf', [['<', W2, ' ', W2, '/>'], 'kt 5']]]),
        # ---- other schemas
        ('S3', main([['<', W2, ' ', W2, '>'], ['</', ('ref', 0, 1), '>'], '<tc sa/>'])),
        ('S4', main(['<ta>', '  <tb>', ['    <tc ', W2, '/>'], ['    ', W2, ' ', V1], '  </tb>', '</ta>'])),
        ('S4', main(['<ta>', ['  <', W2, '/>'], '</ta>'])),
        ('S6', main(['<ta sa/>', ['<', W2, ' ', W2, '/>'], 'kx 1'])),
        ('S7', main(['kc ab', '<ta>', ['  ', W2, ' ', V2], '</ta>'])),
    ]
    SS = lambda n: ['S', n]     # noqa
    L += [
        # ---- substitution faults inside included resources (1 and 2 levels)
        ('S2', [['main.conf', ['kt 5', '%include inc.conf', 'zz top']],
                ['inc.conf', ['# c', '', ['zz $', ['x', 2]]]]]),
        ('S2', [['main.conf', ['# m', '%define ab 7', '<ta n1>', '  ka 1', '  %include d/inc.conf', '</ta>']],
                ['d/inc.conf', ['', '%include ../e.conf']],
                ['e.conf', ['# e', '# e', ['kb ${', W2, '}']]]]),
        ('S2', [['main.conf', ['kt 5', '%include inc.conf']],
                ['inc.conf', [['%define ', W2, ' $', W2], 'zz 1']]]),
        # ---- lines made of whitespace the line reader must not count as line ends
        ('S2', main([[SS(2)], 'kt 5', [SS(1), '#', SS(1)], '<ta n1>', [W2, ' ', V1, SS(1)], '  kb x', '</ta>'])),
        ('S2', [['main.conf', [[SS(1), 'kt 5', SS(1)], '%include inc.conf', 'zz top']],
                ['inc.conf', [[SS(2)], [SS(1), '<ta n1>'], [W2, ' ', V1], '</ta>']]]),
        ('S2', main([['kt 5', SS(1)], [SS(1)], [['x', 3]], 'zz top'])),
    ]
    L += [
        # ---- resources whose URLs carry percent escapes: the error names the URL as it is, escapes included
        ('S2', [['my%20dir/main.conf', ['kt 5', '<ta n1>', [W2, ' ', V1], '</ta>', ['<', W2, '/>']]]]),
        ('S2', [['my%20dir/main.conf', ['kt 5', '%include inc%231.conf', 'zz top']],
                ['my%20dir/inc%231.conf', ['# c', ['<', W2, ' ', W2, '>'], '  ka 1', ['</', ('ref', 1, 1), '>'], [['x', 3]]]]]),
    ]
    L += [
        # ---- application key type / datatype: the error carries the very exception they raised
        ('SK', main(['kt 5', '<ta n1>', [['x', 2], ' ', V1], '  ka 1', '</ta>'])),
        ('SK', main([[['x', 2], ' ', V1], '<ta/>'])),
        ('SK', main(['# c', ['kn ', V2], '<ta>', ['kn ', V1], '</ta>'])),
        ('SK', [['main.conf', ['kt 5', '<ta>', '%include inc.conf', '</ta>']],
                ['inc.conf', ['', ['ka ', V2], [['x', 2], ' 7']]]]),
    ]
    L += [
        # ---- a faulty $ construct in the value of a %define whose name may already be defined
        ('S2', main(['# c', '%define ab 7', ['%define ', W2, ' $', ['x', 2]], 'kt 5'])),
        ('S2', main(['%define ab', '', ['%define AB ', ['x', 3]], 'kt 5'])),
        ('S2', [['main.conf', ['%define ab 7', '%include inc.conf', 'kt 5']],
                ['inc.conf', ['', ['%define ', W2, ' ${', ['x', 1], '}']]]]),
        # ---- a closer that names an ENCLOSING section's type (or anything else) two levels down
        ('S4', main(['<ta>', '  <tb x>', '    kb 1', ['  </', W2, '>'], '</ta>'])),
        ('S4', main(['# c', '<ta>', '  <tb>', '    <tc c1>', ['    </', W2, '>'], '  </tb>', '</ta>'])),
        ('S4', [['main.conf', ['<ta>', '%include inc.conf', '</ta>']],
                ['inc.conf', ['', '<tb>', '<tc>', ['</', W2, '>'], '</tb>']]]),
    ]
    if tier != 'quick':
        L += [
            ('S2', main(['kt 5', '<ta n1>', '  ka 1', [W2, ' ', V2], [W2, ' ', V1], '</ta>'])),
            ('S2', main(['', '# x', 'kt 5', '', ['<', W2, ' ', W2, '>'], [W2, ' ', V1], ['</', ('ref', 4, 1), '>'], '', 'zz t'])),
            ('S2', [['main.conf', ['kt 5', '%include a/b.conf', 'zz top']],
                    ['a/b.conf', ['<ta n1>', '%include ../c.conf', '</ta>']],
                    ['c.conf', ['', [W2, ' ', V2], '  kb z']]]),
            ('S5', main([[W2, ' ', V1], '<ta>', ['  ', W2, ' ', V1], '</ta>'])),
            ('S8', main([['<', W2, ' ', W2, '>'], [W2, ' v'], ['</', ('ref', 0, 1), '>']])),
            ('S9', main([[W2, ' ', V2], ['<ta ', W2, '/>']])),
            ('S2', main(['kt 5', ['<ta n1', ['x', 2]], '  ka 1', '</ta>'])),
            ('S2', main([['kt ', ['x', 3]], '<tb/>'])),
        ]
    return L


def _no_nl(c, i):
    return z3.And(c != 10, c != 13)


class C08(Harness):
    prop = 'C08'
    domain = 'D'
    title = ('bounded symbolic execution of the load pipeline on valid texts with one symbolic fault '
             'line; on every rejecting path z3 shows that the error carries the 1-based line number and '
             'URL of the line the reference oracle holds responsible (and, for conversion errors, the '
             'offending text and a ValueError instance)')
    functions = ('ZConfig.cfgparser.', 'ZConfig.matcher.', 'ZConfig.info.', 'ZConfig.loader.',
                 'ZConfig.substitution.')
    stubs = ('BaseLoader.openResource -> in-memory resources',)
    assumptions = (
        'texts: the enumerated layouts (vf/harness/c08.py) with symbolic tokens of length 2 and values '
        'of length 1-3; line numbers vary through fixed blank/comment lines, they are not symbolic',
        'a requirement of the top-level schema found unmet at end of input has no single culprit line '
        '(only rejection is asserted there); %import failures and unopenable resources are not driven',
        'when the fault line carries a malformed $ construct and a missing name at once either '
        'error class is accepted, the position must still be right',
    )
    expected_classes = ('ok', 'reject')
    nontrivial_rule = 'the path is a rejecting one (a position was compared)'
    step_limit = 60000
    slice_s = 8.0

    @property
    def bounds(self):
        return {t: {'layouts': len(_layouts(t))} for t in ('quick', 'thorough')}

    def budget(self, tier):
        return 170 if tier == 'quick' else 1200

    def units(self, tier):
        us = [{'schema': s, 'files': f} for s, f in _layouts(tier)]
        # loads that ALSO carry command-line overrides (another matcher class reads the text then)
        for sch, f in _layouts(tier)[:3] + [x for x in _layouts(tier) if x[0] == 'SK'][:2]:
            us.append({'schema': sch, 'files': f, 'overrides': ['zz=1'] if sch != 'SK' else ['zq=1']})
        # an %include whose reference is refused while it is joined with the includer's URL (before any
        # I/O): the culprit is the directive's own line; given explicitly, the text oracle does not read URLs
        for ref in ('http://[::1/x.conf', '//[localhost]/x.conf'):
            us.append({'schema': 'S2', 'files': [['main.conf', ['kt 5', ['zz ', V1], '%include ' + ref, 'zz top']]],
                       'badref': [0, 3]})
            us.append({'schema': 'S2', 'files': [['main.conf', ['kt 5', '<ta n1>', '%include sub/inc.conf', '</ta>']],
                                                 ['sub/inc.conf', ['', ['ka ', V1], '', '%include ' + ref]]],
                       'badref': [1, 4]})
        # '<type/>' exactly as '<type>' + '</type>': a fault found while the section is FINISHED whose position
        # does not come from the text (a default the datatype refuses) has the same class, value, original exception and position
        for sch, head in (('SB', ['kt 1']), ('SB', [])):
            for nm in ([], [' ', W2]):
                us.append({'schema': sch, 'selfclose': True,
                           'files': [['main.conf', head + [['<ta'] + nm + ['/>'], 'kt 2']]]})
        # the same single-file layouts loaded from a file object WITHOUT a URL: line numbers must be
        # just as right; there is no URL to report
        for s, f in _layouts(tier):
            if len(f) == 1:
                us.append({'schema': s, 'files': f, 'nourl': True})
        return us

    # holes are named f<file>l<line>p<part>
    def inputs(self, eng, unit):
        out = {}
        for fi, (name, lines) in enumerate(unit['files']):
            for li, line in enumerate(lines):
                if isinstance(line, str):
                    continue
                for pi, part in enumerate(line):
                    if isinstance(part, list) and part[0] in ('w', 'v', 'x', 'S'):
                        nm = 'f%dl%dp%d' % (fi, li, pi)
                        pred = {'w': P.word_pred, 'v': P.value_pred, 'x': _no_nl, 'S': P.anyws_pred}[part[0]]
                        out[nm] = self.sym_str(eng, nm, part[1], pred)
        return out

    def files(self, unit, inp):
        res = []
        for fi, (name, lines) in enumerate(unit['files']):
            out = []
            for li, line in enumerate(lines):
                if isinstance(line, str):
                    out.append(line)
                    continue
                s = ''
                for pi, part in enumerate(line):
                    if isinstance(part, str):
                        s = s + part
                    elif part[0] == 'ref':
                        s = s + inp['f%dl%dp%d' % (fi, part[1], part[2])]
                    else:
                        s = s + inp['f%dl%dp%d' % (fi, li, pi)]
                out.append(s)
            res.append((name, out))
        return res

    def observe(self, unit, inp):
        files = self.files(unit, inp)
        if unit.get('selfclose'):
            concrete = common.all_concrete(inp)
            short = self._outcome(unit, files, concrete)
            name, lines = files[0]
            i = [k for k, l in enumerate(lines) if l.endswith('/>')][0]
            opened = lines[i][:-2] + '>'
            # closer on the same... next line: positions of finish-time faults do not come from the text
            long_ = self._outcome(unit, [(name, lines[:i] + [opened, '</ta>'] + lines[i + 1:])], concrete)
            return ('reject' if short[0] == 'reject' else short[0], 'pair', short, long_)
        return self._outcome(unit, files, common.all_concrete(inp))

    def _outcome(self, unit, files, concrete):
        import ZConfig
        store = {P.BASE + n: ls for n, ls in files}
        dtsupport.LAST['exc'] = None
        with common.env_scope(concrete, {}), P.mem_resources(store):
            r = P.run_load(XML[unit['schema']], files[0][1], overrides=unit.get('overrides', ()),
                           url=None if unit.get('nourl') else P.BASE + files[0][0])
        if r[0] == 'ok':
            return ('ok',)
        if r[0] == 'crash':
            return ('crash', r[1])
        e = r[2]
        fam = 'other'
        extra = None
        if isinstance(e, ZConfig.DataConversionError):
            fam = 'conversion'
            original = isinstance(e.exception, ValueError)
            if unit['schema'] == 'SK':
                # identity with the exception object the application's converter raised last
                original = e.exception is dtsupport.LAST['exc']
            extra = (e.value, original)
        elif isinstance(e, ZConfig.SubstitutionSyntaxError):
            fam = 'subst-syntax'
        elif isinstance(e, ZConfig.ConfigurationSyntaxError):
            fam = 'syntax'
        return ('reject', fam, getattr(e, 'lineno', None), getattr(e, 'url', None), extra)

    # ---- oracle: textual inlining with a map back to (url, local line)
    def flatten(self, files):
        d = dict(files)
        flat = []

        def rec(name, depth):
            base = name.rsplit('/', 1)[0] + '/' if '/' in name else ''
            for i, line in enumerate(d[name]):
                if isinstance(line, str) and line.strip().startswith('%include '):
                    rel = line.strip()[len('%include '):].strip()
                    target = _join(base, rel)
                    rec(target, depth + 1)
                else:
                    flat.append((P.BASE + name, i + 1, line))
        rec(files[0][0], 0)
        return flat

    def expect(self, unit, inp, real):
        if unit.get('selfclose'):
            return (real[3][0], 'pair', real[3], real[3])
        if 'badref' in unit:
            fi, ln = unit['badref']
            # (values are converted when their section is closed - after the directive was refused)
            return ('reject', 'config', ln, P.BASE + unit['files'][fi][0], None)
        flat = self.flatten(self.files(unit, inp))
        lines = [x[2] for x in flat]
        g = G.parse(lines, 'record', want_lines=True)
        if g[0] != 'ok':
            r = CF.evaluate(VIEWS[unit['schema']], g[2], g[3], partial=True)
            if r[0] == 'any':
                return r[:1]
            if r[0] == 'ok':
                url, ln, _ = flat[g[1] - 1]
                return ('reject', g[0], ln, url, None)
        else:
            r = CF.evaluate(VIEWS[unit['schema']], g[1], g[3])
        if r[0] != 'reject':
            return r[:1]
        if r[1] is None:
            return ('reject', 'unplaced', None, None, None)
        url, ln, _ = flat[r[1] - 1]
        return ('reject', 'conversion' if r[2] == 'conversion' else 'config', ln, url,
                (r[3], True) if r[2] == 'conversion' else None)

    def agree(self, unit, real, exp):
        if unit.get('selfclose'):
            return deep_eq(real, exp)
        if exp[0] == 'any':
            return z3.BoolVal(real[0] in ('ok', 'reject'))
        if exp[0] == 'ok':
            return z3.BoolVal(real[0] == 'ok')
        if real[0] != 'reject':
            return z3.BoolVal(False)
        fam = exp[1]
        if fam == 'unplaced':
            return z3.BoolVal(True)
        if unit.get('nourl'):
            pos = z3.And(deep_eq(real[2], exp[2]), z3.BoolVal(real[3] is None))
        else:
            pos = z3.And(deep_eq(real[2], exp[2]), deep_eq(real[3], exp[3]))
        if fam == 'conversion':
            return z3.And(pos, z3.BoolVal(real[1] == 'conversion'), deep_eq(real[4], exp[4]))
        if fam == 'syntax':
            return z3.And(pos, z3.BoolVal(real[1] == 'syntax'))
        if fam == 'subst-syntax':
            return z3.And(pos, z3.BoolVal(real[1] == 'subst-syntax'))
        return pos

    def classify(self, unit, real):
        return real[0]

    def nontrivial(self, unit, inp, real):
        return real[0] == 'reject'

    def finding(self, unit, inp, real, exp):
        if unit.get('selfclose'):
            return None
        if real[0] == 'reject' and exp[0] == 'reject':
            if real[1] == 'subst-syntax' and real[2] is None:
                return 'F5'
            if real[2] in (None, -1):
                # finish-time error of a self-closing section
                return 'F4'
        return None


def _join(base, rel):
    parts = (base + rel).split('/')
    out = []
    for p in parts:
        if p == '..':
            out.pop()
        elif p != '.':
            out.append(p)
    return '/'.join(out)


HARNESS = C08()

"""C05 - %define names form one case-insensitive, define-before-use, write-once namespace.

Texts of define / use / include lines whose names and raw values are symbolic (names over
[A-Za-z0-9_-] so that case variants and illegal names arise, values over printable ASCII
incl. '$' so that nested references, '$$' and malformed constructs arise), loaded through
the real loader (in-memory include resources, up to 2 include levels) against a plain
schema; each sequence can be run twice against the same schema object.
Oracle: the line-grammar reference (which implements the define rules from the statement)
over the textually inlined text, then the conformance oracle for the value tree."""
import z3

from ..base import Harness
from ..core import deep_eq
from .. import gen
from . import common, pipeline as P

SD = gen.schema(items=[gen.key('k1'), gen.key('k2'), gen.multikey('k3')])
SD_XML = gen.render(SD)
SD_VIEW = gen.View(SD)

N1, N2 = ['n', 1], ['n', 2]
D1, D2, D3 = ['d', 1], ['d', 2], ['d', 3]


def layouts(tier):
    m = lambda lines: [['main.conf', lines]]
    L = [
        m([['%define ', N2, ' ', D2], ['k1 $', N2]]),
        m([['%define ', N1, ' ', D2], ['%define ', N1, ' ', D2], ['k1 $', N1]]),
        m([['k1 $', N2], ['%define ', N2, ' x']]),
        m(['%define a b', ['%define ', N1, ' $', N1], ['k1 ${', N1, '}x']]),
        m([['%define ', N1, ' $$', N1], ['%define ', N1, ' $', D1, N1], ['k3 $', N1]]),
        m([['%define ', N2], ['k1 [$', N2, ']']]),
        m([['%define ', N1, '  ', D1, ' ', D1, ' '], ['k1 $', N1]]),
        m([['%define ', N1, ' ', D3]]),
        # a '$' construct in the NAME token of a define; values that start with a reference to an empty
        # definition; a define whose whole argument is references to empty definitions
        m([['%define ', N1, ' ', N1], ['%define ', ['d', 2], ' v'], ['k1 $', ['ref', 0, 1]]]),
        m(['%define e', ['%define a ${e} ', D1], ['%define a ', ['ref', 1, 1]], 'k1 [$a]']),
        m([['%define ', N1], ['%define $', N1], ['k1 x']]),
        m([['%define ', N1], ['%define ${', ['ref', 0, 1], '} $', ['ref', 0, 1]], ['k1 x']]),
        # any character (non-ASCII letters and digits included) inside a name and right behind a reference
        m([['%define ', N1, ['x', 1], ' ', D1], ['k1 $', ['ref', 0, 1], ['ref', 0, 2]]]),
        m([['%define ', N1, ' v'], ['k1 $', ['ref', 0, 1], ['x', 1], ' ${', ['ref', 0, 1], '}', ['x', 1]]]),
        # whitespace INSIDE a value is part of the value: a run of two whitespace characters (or one that
        # is not a blank) against the single blank in a re-definition, and as seen through a reference
        m([['%define ', N1, ' ', D1, ['s', 2], D1], ['%define ', ['ref', 0, 1], ' ', ['ref', 0, 3], ' ', ['ref', 0, 5]],
           ['k1 [$', ['ref', 0, 1], ']']]),
        m([['%define ', N1, ' ', D1, ['s', 1], D1], ['%define ', ['ref', 0, 1], ' ', ['ref', 0, 3], ' ', ['ref', 0, 5]],
           ['k1 [$', ['ref', 0, 1], ']']]),
        m([['%define ', N1, ' ', D1, ['s', 2], D1], ['k1 [$', ['ref', 0, 1], ']']]),
        # a value made of '$$' directly followed by the name being defined (an escaped dollar, not a reference)
        m([['%define ', N1, ' $$', ['ref', 0, 1], D1], ['k1 [$', ['ref', 0, 1], ']']]),
        m([['%define ', N2, ' $$', N2], ['k1 $', ['ref', 0, 1]]]),
        # one definitions-only resource included twice in one load (two lines, and a diamond): an equal
        # re-definition, accepted
        [['main.conf', ['%include c.conf', '%include c.conf', ['k1 [$', N1, ']']]],
         ['c.conf', [['%define ', N1, ' ', D1]]]],
        [['main.conf', ['%include a.conf', '%include sub/b.conf', ['k1 [$', N1, ']']]],
         ['a.conf', ['%include c.conf']], ['sub/b.conf', ['%include ../c.conf', 'k2 b']],
         ['c.conf', [['%define ', N1, ' ', D1]]]],
        [['main.conf', [['%define ', N1, ' v'], '%include inc.conf', ['k2 $', N1]]],
         ['inc.conf', [['k1 $', N1], ['%define ', N1, ' w']]]],
        [['main.conf', ['%include a/inc.conf', ['k2 $', N1]]],
         ['a/inc.conf', ['%include ../b.conf', ['%define ', N1, ' $', N1]]],
         ['b.conf', [['%define ', N1, ' ', D1]]]],
    ]
    if tier != 'quick':
        L += [
            m([['%define ', N2, ' ', D3], ['k1 $', N2, ' ${', N2, '}']]),
            m([['%define ', N1, ' ', D2], ['%define ', N1, ' ', D2], ['%define ', N1, ' ', D2], ['k1 $', N1]]),
            m([['%define ', N2, ' ', D2], ['%define ', N2, ' $', N2], ['k1 $', N2], ['k2 $', N2]]),
            m([['%define ', ['x', 2], ' v'], ['k1 $', N2]]),
            [['main.conf', [['%define ', N1, ' ', D2], '%include inc.conf', ['k2 $', N1]]],
             ['inc.conf', [['%define ', N1, ' ', D2], ['k1 $', N1]]]],
        ]
    return L


def generated(tier):
    """every sequence of 2 (thorough: 3) definitions whose values are drawn from
    {absent, literal, '$other', '$$x', '${other}x', ' padded '} with symbolic names, followed by
    a use; plus the same pairs split over an %include in both directions"""
    def val(kind, j):
        nm = ['n', 1]
        return {'E': [], 'L': [' ', D1], 'R': [' $', nm], 'Q': [' $$', D1], 'B': [' ${', nm, '}x'],
                'P': ['  ', D1, ' ']}[kind]
    kinds = 'ELRQBP'
    out = []
    import itertools
    n = 2
    seqs = list(itertools.product(kinds, repeat=2))
    if tier != 'quick':
        seqs += [s for i, s in enumerate(itertools.product(kinds, repeat=3)) if i % 4 == 0]
    for seq in seqs:
        lines = [['%define ', N1] + val(k, j) for j, k in enumerate(seq)]
        lines.append(['k1 [$', N1, ']'])
        out.append([['main.conf', lines]])
    # the same namespace across an include: first definition outside, second inside, and vice versa
    for seq in (list(itertools.product('ELR', repeat=2)) if tier == 'quick' else list(itertools.product(kinds, repeat=2))):
        a = ['%define ', N1] + val(seq[0], 0)
        b = ['%define ', N1] + val(seq[1], 1)
        out.append([['main.conf', [a, '%include inc.conf', ['k1 [$', N1, ']']]], ['inc.conf', [b]]])
        out.append([['main.conf', ['%include sub/inc.conf', b, ['k1 [$', N1, ']']]], ['sub/inc.conf', [a]]])
    return out


def twice(tier):
    m = lambda lines: [['main.conf', lines]]
    T = [
        (m([['%define ', N1, ' v'], ['k1 $', ['ref', 0, 1]]]), m([['k1 $', N1]])),
        (m([['%define ', N2, ' ', D1]]), m([['%define ', N2, ' ', D1], ['k1 $', N2]])),
        # the first load fails after its definition was read
        (m([['%define ', N1, ' v'], 'nosuchkey 1']), m([['%define ', N1, ' ', D1], ['k1 $', N1]])),
    ]
    return T


class C05(P.TextMixin, Harness):
    prop = 'C05'
    domain = 'D'
    title = ('bounded symbolic execution of handle_define / replace / include handling inside the real '
             'loader on define-use-include sequences with symbolic names and raw values, against the '
             'reference define rules (case-insensitive, define-before-use, write-once-unless-equal, '
             'expanded once); includes share the namespace, consecutive loads do not')
    functions = ('ZConfig.cfgparser.ZConfigParser.handle_define', 'ZConfig.cfgparser.ZConfigParser.replace',
                 'ZConfig.cfgparser.', 'ZConfig.loader.ConfigLoader.includeConfiguration',
                 'ZConfig.loader.', 'ZConfig.substitution.')
    stubs = ('BaseLoader.openResource -> in-memory resources',)
    assumptions = (
        'sequences of at most 4 directive/use lines, names of 1-2 characters, raw values of 1-3 '
        'characters (see the layouts in vf/harness/c05.py); up to 2 include levels',
        'when a line carries several faults of different error classes either class is accepted',
    )
    expected_classes = ('ok', 'reject')
    nontrivial_rule = 'every completed path'
    step_limit = 60000
    slice_s = 8.0

    @property
    def bounds(self):
        return {t: {'layouts': len(layouts(t)), 'generated_define_sequences': len(generated(t)),
                    'twice': len(twice(t))} for t in ('quick', 'thorough')}

    def budget(self, tier):
        return 170 if tier == 'quick' else 1200

    def units(self, tier):
        us = [{'files': f} for f in layouts(tier) + generated(tier)]
        us += [{'files': a, 'files2': b} for a, b in twice(tier)]
        # the same two loads through ONE ConfigLoader object (the documented loader class)
        us += [{'files': a, 'files2': b, 'same_loader': True} for a, b in twice(tier)]
        return us

    def inputs(self, eng, unit):
        inp = self.text_inputs(eng, unit)
        if 'files2' in unit:
            for k, v in self.text_inputs_second(eng, unit).items():
                inp[k] = v
        return inp

    def text_inputs_second(self, eng, unit):
        out = {}
        for fi, (name, lines) in enumerate(unit['files2']):
            for li, line in enumerate(lines):
                if isinstance(line, str):
                    continue
                for pi, part in enumerate(line):
                    if isinstance(part, (list, tuple)) and part[0] in P.HOLE_PREDS:
                        nm = 'g%dl%dp%d' % (fi, li, pi)
                        out[nm] = self.sym_str(eng, nm, part[1], P.HOLE_PREDS[part[0]])
        return out

    def files2(self, unit, inp):
        inp2 = {k.replace('g', 'f', 1): v for k, v in inp.items() if k.startswith('g')}
        return self.text_files({'files': unit['files2']}, inp2)

    def _one(self, schema_xml, files, concrete):
        r = self.real_load(schema_xml, files, concrete)
        if r[0] == 'ok':
            return ('ok', P.walk(r[1]))
        if r[0] == 'crash':
            return ('crash', r[1])
        return ('reject', P.describe_reject(r[2])[0])

    def observe(self, unit, inp):
        concrete = common.all_concrete(inp)
        P._SCHEMA_CACHE.clear()
        # the same schema object serves both loads of a 'twice' unit
        orig = P.load_schema
        self._loader = None
        if unit.get('same_loader'):
            import ZConfig.loader
            self._loader = ZConfig.loader.ConfigLoader(P.load_schema(SD_XML, True))
        a = self._cached(unit, SD_XML, self.text_files(unit, inp), concrete)
        if 'files2' not in unit:
            return a
        b = self._cached(unit, SD_XML, self.files2(unit, inp), concrete)
        self._loader = None
        P._SCHEMA_CACHE.clear()
        return ('two', a, b)

    def _cached(self, unit, xml, files, concrete):
        store = {P.BASE + n: ls for n, ls in files}
        with common.env_scope(concrete, {}), P.mem_resources(store):
            if getattr(self, '_loader', None) is not None:
                import ZConfig
                try:
                    cfg, h = self._loader.loadFile(common.make_file(files[0][1]), P.BASE + files[0][0])
                    r = ('ok', cfg, h)
                except ZConfig.ConfigurationError as e:
                    r = ('reject', type(e).__name__, e)
                except Exception as e:
                    r = ('crash', type(e).__name__, e)
            else:
                r = P.run_load(xml, files[0][1], url=P.BASE + files[0][0], cache_schema=True)
        if r[0] == 'ok':
            return ('ok', P.walk(r[1]))
        if r[0] == 'crash':
            return ('crash', r[1])
        return ('reject', P.describe_reject(r[2])[0])

    def expect(self, unit, inp, real):
        a = P.oracle_load(SD_VIEW, self.flatten(self.text_files(unit, inp)))
        if 'files2' not in unit:
            return a
        b = P.oracle_load(SD_VIEW, self.flatten(self.files2(unit, inp)))
        return ('two', a, b)

    def _agree1(self, real, exp):
        if exp[0] == 'any':
            return z3.BoolVal(real[0] in ('ok', 'reject'))
        if exp[0] == 'ok':
            return deep_eq(real, exp)
        if real[0] != 'reject':
            return z3.BoolVal(False)
        return z3.BoolVal(P.family_agree(real[1], exp[1]))

    def agree(self, unit, real, exp):
        if exp[0] == 'two':
            if real[0] != 'two':
                return z3.BoolVal(False)
            return z3.And(self._agree1(real[1], exp[1]), self._agree1(real[2], exp[2]))
        return self._agree1(real, exp)

    def classify(self, unit, real):
        if real[0] == 'two':
            return real[2][0]
        return real[0]


HARNESS = C05()

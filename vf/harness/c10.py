"""C10 - schema documents are accepted exactly when they obey the schema language rules.

expat cannot take symbolic text, so the unit driven symbolically is the SAX ContentHandler
(schema.SchemaParser: startElement / characters / endElement / endDocument) fed the event
stream of a schema document whose attribute VALUES are symbolic strings.  The pristine
replay renders the XML and goes through ZConfig.loadSchemaFile, so expat is cross-checked
concretely on every path.  Oracle: vf.oracles.schemarules."""
import io
from xml.sax.saxutils import quoteattr, escape

import z3

from ..base import Harness
from ..core import deep_eq
from ..oracles import schemarules as R
from . import pipeline as P


def xml_pred(c, i):
    """printable ASCII plus TAB, LF and CR (written as character references by quoteattr, so they reach
    the handler unchanged through expat as well)"""
    return z3.Or(z3.And(c >= 32, c <= 126), c == 9, c == 10, c == 13)


def H(n, i):
    return ['h', n, i]


def CAT(*parts):
    """attribute value = concatenation of literals and holes"""
    return ['+'] + list(parts)


def nodot_pred(c, i):
    return z3.And(xml_pred(c, i), c != 46)


S = lambda _el, **a: ('s', _el, a)      # noqa
E = lambda _el: ('e', _el)              # noqa

DOCS_Q = [
    # key name / required / attribute; second key name colliding after normalisation
    [S('schema'), S('sectiontype', name='ta'),
     S('key', name=H(2, 'k1'), required=H(2, 'r1'), default='x'), E('key'),
     S('key', name=H(2, 'k2'), attribute=H(2, 'a2')), E('key'),
     E('sectiontype'), S('section', type='ta', name='*', attribute='sa'), E('section'), E('schema')],
    [S('schema'), S('key', name=H(3, 'k1'), required=H(3, 'r1')), E('key'),
     S('multikey', name=H(1, 'k2'), attribute='aa'), E('multikey'), E('schema')],
    # type names, extends, implements
    [S('schema'), S('abstracttype', name=H(2, 'a1')), E('abstracttype'),
     S('sectiontype', name=H(2, 't1'), implements=H(2, 'i1')), E('sectiontype'),
     S('sectiontype', name=H(2, 't2'), extends=H(2, 'e1')), E('sectiontype'), E('schema')],
    [S('schema'), S('sectiontype', name='ta'), S('key', name='ka'), E('key'), E('sectiontype'),
     S('sectiontype', name='tb', extends='TA'), S('key', name=H(2, 'k1'), attribute=H(2, 'a1')), E('key'),
     E('sectiontype'), E('schema')],
    # sections and multisections
    [S('schema'), S('sectiontype', name='ta'), E('sectiontype'),
     S('section', type=H(2, 't1'), name=H(2, 'n1')), E('section'),
     S('multisection', type='ta', name=H(1, 'n2'), attribute=H(2, 'a2')), E('multisection'), E('schema')],
    [S('schema'), S('sectiontype', name='ta'), E('sectiontype'), S('key', name='sa'), E('key'),
     S('section', type='Ta', name=H(2, 'n1'), attribute=H(2, 'a1'), required=H(2, 'r1')), E('section'),
     E('schema')],
    # wildcard keys and their defaults
    [S('schema'), S('key', name='+', attribute=H(2, 'a1')),
     S('default', key=H(2, 'd1')), ('c', 'x'), E('default'),
     S('default', key=H(2, 'd2')), ('c', 'y'), E('default'), E('key'), E('schema')],
    [S('schema'), S('multikey', name=H(1, 'k1'), attribute='aa'),
     S('default', key=H(1, 'd1')), ('c', 'x'), E('default'), E('multikey'), E('schema')],
    [S('schema'), S('key', name=H(1, 'k1'), attribute='aa', default=H(1, 'v1')), E('key'), E('schema')],
    [S('schema'), S('key', name='ka'), S('default'), ('c', 'x'), E('default'), E('key'), E('schema')],
    # datatype names, keytype
    [S('schema', keytype=CAT('identifi', H(2, 'kt'))), S('key', name='Ka'), E('key'), S('key', name=H(2, 'k1')), E('key'), E('schema')],
    [S('schema', keytype=CAT('basic-ke', H(1, 'kt'))), S('key', name='Ka'), E('key'), S('key', name=H(2, 'k1')), E('key'), E('schema')],
    [S('schema'), S('key', name='ka', datatype=H(4, 'Dt')), E('key'), E('schema')],
    [S('schema'), S('key', name='ka', datatype=CAT('inte', H(3, 'Dt'))), E('key'), E('schema')],
    [S('schema'), S('key', name='ka', datatype='integer', handler=H(2, 'h1')), E('key'), E('schema')],
    # stray text
    [S('schema'), ('c', H(2, 'c1')), S('key', name='ka'), ('c', H(1, 'c2')), E('key'), E('schema')],
]
# nesting table: element placed under a parent, concrete
for _child, _parent in [('key', 'abstracttype'), ('section', 'key'), ('default', 'section'), ('sectiontype', 'sectiontype'),
                        ('default', 'schema'), ('bogus', 'schema'), ('description', 'schema'), ('metadefault', 'schema'),
                        ('example', 'abstracttype'), ('key', 'multikey')]:
    _par = {'abstracttype': [S('abstracttype', name='aa')], 'key': [S('key', name='ka')],
            'section': [S('sectiontype', name='ta'), E('sectiontype'), S('section', type='ta', name='sa')],
            'sectiontype': [S('sectiontype', name='ta')], 'schema': [], 'multikey': [S('multikey', name='ka')]}[_parent]
    _inner = {'key': [S('key', name='kx'), E('key')], 'section': [S('section', type='ta')],
              'default': [S('default'), ('c', 'v'), E('default')], 'sectiontype': [S('sectiontype', name='tz'), E('sectiontype')],
              'bogus': [S('bogus'), E('bogus')], 'description': [S('description'), ('c', 'text'), E('description')],
              'metadefault': [S('metadefault'), ('c', 'm'), E('metadefault')],
              'example': [S('example'), ('c', 'e'), E('example')]}[_child]
    _close = [E(x[1]) for x in reversed(_par) if x[0] == 's' and not any(y == ('e', x[1]) for y in _par)]
    DOCS_Q.append([S('schema')] + _par + _inner + _close + [E('schema')])

DOCS_Q += [
    # inherited attribute names differ from the key names (explicit attribute, hyphen, wildcard,
    # anonymous section): a derived type must not re-use them
    [S('schema'), S('sectiontype', name='tz'), E('sectiontype'),
     S('sectiontype', name='ta'), S('key', name='kx', attribute='ab'), E('key'),
     S('key', name='k-y'), E('key'), S('multikey', name='+', attribute='mm'), E('multikey'),
     S('section', type='tz', name='*', attribute='sz'), E('section'), E('sectiontype'),
     S('sectiontype', name='tb', extends='ta'),
     S('key', name=H(2, 'k1'), attribute=H(2, 'a1')), E('key'), E('sectiontype'), E('schema')],
    [S('schema'), S('sectiontype', name='tz'), E('sectiontype'),
     S('sectiontype', name='ta'), S('key', name='kx', attribute='ab'), E('key'),
     S('key', name='k-y'), E('key'), S('multikey', name='+', attribute='mm'), E('multikey'),
     S('section', type='tz', name='*', attribute='sz'), E('section'), E('sectiontype'),
     S('sectiontype', name='tb', extends='ta'), E('sectiontype'),
     S('sectiontype', name='tc', extends='tb'),
     S('multisection', type='tz', name='*', attribute=H(2, 'a1')), E('multisection'),
     S('key', name=CAT('k', H(1, 'k1'), 'y')), E('key'), E('sectiontype'), E('schema')],
]


DOCS_Q += [
    # a case-preserving key type: a key and a NAMED section whose names may differ in letter case only
    [S('schema', keytype='identifier'), S('sectiontype', name='ta'), E('sectiontype'),
     S('key', name=H(2, 'k1'), attribute='aa'), E('key'),
     S('section', type='ta', name=H(2, 'n1'), attribute='ab'), E('section'),
     S('multisection', type='ta', name='+', attribute='ac'), E('multisection'), E('schema')],
    [S('schema'), S('sectiontype', name='ta'), E('sectiontype'),
     S('sectiontype', name='tb', keytype='identifier'),
     S('section', type='ta', name=H(2, 'n1'), attribute='ab'), E('section'),
     S('key', name=H(2, 'k1'), attribute='aa'), E('key'), E('sectiontype'), E('schema')],
    [S('schema', keytype='identifier'), S('sectiontype', name='ta', keytype='basic-key'),
     S('key', name='Kx'), E('key'), E('sectiontype'),
     S('key', name='Ka'), E('key'), S('key', name=H(2, 'k1')), E('key'),
     S('key', name='+', attribute='any'), S('default', key='Da'), ('c', 'x'), E('default'),
     S('default', key=H(2, 'd1')), ('c', 'y'), E('default'), E('key'), E('schema')],
    [S('schema'), S('sectiontype', name='ta', keytype='identifier'), S('key', name='Kx'), E('key'), E('sectiontype'),
     S('sectiontype', name='tb', extends='ta'), E('sectiontype'),
     S('key', name='Ka'), E('key'), S('key', name=H(2, 'k1')), E('key'), E('schema')],
]


def uni_pred(c, i):
    """what an XML 1.0 attribute value can carry of domain D: xml_pred plus the non-ASCII members"""
    return z3.Or(xml_pred(c, i), c >= 0xA0)


DOCS_Q += [
    # type references (section type, extends, implements) over domain D incl. its non-ASCII letters: names
    # are compared after lower-casing, nothing else makes two spellings equal
    [S('schema'), S('sectiontype', name='sa'), E('sectiontype'), S('abstracttype', name='as'), E('abstracttype'),
     S('sectiontype', name='ts', extends=H(2, 'Ue'), implements=H(2, 'Ui')), E('sectiontype'),
     S('section', type=H(2, 'Ut'), name='*', attribute='sx'), E('section'), E('schema')],
    [S('schema'), S('sectiontype', name='ss'), S('multisection', type=H(2, 'Ut'), name='*', attribute='sx'),
     E('multisection'), E('sectiontype'), E('schema')],
    # a wildcard key's keyed defaults inherited by types that name another key type (directly, and two
    # levels down)
    [S('schema'), S('sectiontype', name='ta'), S('key', name='+', attribute='any'),
     S('default', key=H(2, 'd1')), ('c', 'x'), E('default'), S('default', key=H(2, 'd2')), ('c', 'y'), E('default'),
     E('key'), E('sectiontype'),
     S('sectiontype', name='tb', extends='ta', keytype='identifier'), E('sectiontype'), E('schema')],
    [S('schema'), S('sectiontype', name='ta', keytype='identifier'), S('multikey', name='+', attribute='any'),
     S('default', key=H(2, 'd1')), ('c', 'x'), E('default'), S('default', key=H(2, 'd2')), ('c', 'y'), E('default'),
     E('multikey'), E('sectiontype'),
     S('sectiontype', name='tb', extends='ta'), E('sectiontype'),
     S('sectiontype', name='tc', extends='tb', keytype='basic-key'), E('sectiontype'), E('schema')],
]


def variants(docs):
    """for every document and every symbolic attribute value: the same document with that value
    empty, and with the attribute left out"""
    out = []
    for doc in docs:
        holes = []
        for ei, ev in enumerate(doc):
            if ev[0] == 's':
                for k, v in ev[2].items():
                    if isinstance(v, list) and v[0] == 'h':
                        holes.append((ei, k))
        for ei, k in holes:
            for mode in ('empty', 'absent'):
                new = []
                for ej, ev in enumerate(doc):
                    if ej == ei:
                        a = dict(ev[2])
                        if mode == 'empty':
                            a[k] = ''
                        else:
                            del a[k]
                        new.append(('s', ev[1], a))
                    else:
                        new.append(ev)
                out.append(new)
    return out


DOCS_V = variants(DOCS_Q)

DOCS_T = DOCS_Q + DOCS_V + [
    [S('schema'), S('sectiontype', name=H(2, 't1')), S('key', name=H(2, 'k1')), E('key'), E('sectiontype'),
     S('sectiontype', name=H(2, 't2'), extends=H(2, 'e1')), S('key', name=H(2, 'k2')), E('key'), E('sectiontype'),
     E('schema')],
    [S('schema'), S('key', name=H(3, 'k1')), E('key'), S('key', name=H(3, 'k2')), E('key'), E('schema')],
    [S('schema', keytype='identifier'), S('key', name=H(2, 'k1')), E('key'), S('key', name=H(2, 'k2')), E('key'), E('schema')],
    [S('schema'), S('sectiontype', name='ta', keytype='ipaddr-or-hostname'),
     S('key', name='+', attribute='hh'), S('default', key=H(3, 'd1')), ('c', 'x'), E('default'),
     S('default', key=H(3, 'd2')), ('c', 'y'), E('default'), E('key'), E('sectiontype'), E('schema')],
    [S('schema'), S('abstracttype', name='aa'), E('abstracttype'),
     S('sectiontype', name='ta', implements='aa'), E('sectiontype'),
     S('multisection', type=H(2, 't1'), name=H(1, 'n1'), attribute=H(3, 'a1')), E('multisection'), E('schema')],
]


# documents with <import src=...>: the imported resources are concrete and served from memory; the names
# of the importing document's own types are symbolic, so they may collide with an imported name
OTHER = ('<schema><sectiontype name="ta"><key name="ka"/></sectiontype><abstracttype name="ab"/></schema>',
         [('ta', False), ('ab', True)])
THIRD = ('<schema><sectiontype name="TA"/><sectiontype name="tc"/></schema>', [('ta', False), ('tc', False)])
FOURTH = ('<schema><abstracttype name="ta"/></schema>', [('ta', True)])
DOCS_I = [
    ([S('schema'), S('sectiontype', name=H(2, 't1')), E('sectiontype'), S('import', src='other.xml'), E('import'),
      S('sectiontype', name=H(2, 't2'), extends=H(2, 'e1')), E('sectiontype'), E('schema')], {'other.xml': OTHER}),
    ([S('schema'), S('import', src='other.xml'), E('import'), S('abstracttype', name=H(2, 'a1')), E('abstracttype'),
      S('section', type=H(2, 's1'), name='*', attribute='sx'), E('section'), E('schema')], {'other.xml': OTHER}),
    ([S('schema'), S('import', src='other.xml'), E('import'), S('import', src='sub/third.xml'), E('import'), E('schema')],
     {'other.xml': OTHER, 'sub/third.xml': THIRD}),
    ([S('schema'), S('import', src='sub/third.xml'), E('import'), S('import', src='other.xml'), E('import'), E('schema')],
     {'other.xml': OTHER, 'sub/third.xml': THIRD}),
    ([S('schema'), S('import', src='other.xml'), E('import'), S('import', src='fourth.xml'), E('import'), E('schema')],
     {'other.xml': OTHER, 'fourth.xml': FOURTH}),
    ([S('schema'), S('import', src='sub/third.xml'), E('import'), S('sectiontype', name=H(2, 't1'), implements=H(2, 'i1')),
      E('sectiontype'), E('schema')], {'sub/third.xml': THIRD}),
]


# ONE SchemaLoader object reading several documents from nameless file objects (no URL): every document is
# judged on its own.  (xml, verdict, key names of the result)
REUSE_FIRST = '<schema><key name="first"/></schema>'
REUSE_DOCS = [
    ('<schema><key name="ka"/><key name="kb"/></schema>', 'accept', ['ka', 'kb']),
    ('<schema><key name="ka"/><key name="KA"/></schema>', 'reject', None),
    ('<schema><sectiontype name="ta"/><sectiontype name="TA"/></schema>', 'reject', None),
    ('<schema><key name="*" attribute="x"/></schema>', 'reject', None),
    ('<schema><key name="kz" required="yes" default="1"/></schema>', 'reject', None),
]


# schema-level extends three files deep: only the bottom one names a key type (identifier); what the bases
# contribute is described to the oracle under '__extends__'
MID = ('<schema extends="deep/bottom.xml"><key name="Km"/></schema>', [])
BOTTOM = ('<schema keytype="identifier"><key name="Kb"/></schema>', [])
DOCS_I.append(([S('schema', extends='mid.xml'), S('key', name=H(2, 'k1')), E('key'), S('key', name=H(2, 'k2')), E('key'),
                 E('schema')],
                {'mid.xml': MID, 'deep/bottom.xml': BOTTOM,
                 '__extends__': {'mid.xml': {'keytype': 'identifier', 'children': [('Kb', 'kb'), ('Km', 'km')]}}}))


class C10(Harness):
    prop = 'C10'
    domain = 'D'
    title = ('bounded symbolic execution of the schema SAX handler (SchemaParser.startElement / characters / '
             'endElement and the info constructors behind it) on schema event streams with symbolic attribute '
             'values, against a reference model of the static rules; the replay renders XML and loads it through '
             'expat')
    functions = ('ZConfig.schema.', 'ZConfig.info.', 'ZConfig.datatypes.Registry.get')
    stubs = ('xml.sax/expat is bypassed in the symbolic run (events are fed to the ContentHandler directly); '
             'every replayed witness goes through expat',)
    assumptions = (
        'documents: the enumerated event-stream templates of vf/harness/c10.py (element sequences and which '
        'attribute values are symbolic); attribute values are printable ASCII of the stated lengths',
        'XML well-formedness, entities, encodings, <import package=...> and dotted (imported) datatype names are outside '
        'the claim: datatype / keytype values contain no "." (an unimportable dotted name raises ImportError, '
        'which Registry.get documents as unspecified)',
        'a wildcard key default whose key is not valid under the key type: rejected, error class not asserted',
        '<import src=...>: the imported resources are concrete documents served from memory (DOCS_I); only the '
        'importing document has symbolic attribute values',
    )
    expected_classes = ('accept', 'reject')
    nontrivial_rule = 'every completed path'
    step_limit = 60000

    @property
    def bounds(self):
        return {'quick': {'documents': len(DOCS_Q) + len(DOCS_V)}, 'thorough': {'documents': len(DOCS_T)}}

    def budget(self, tier):
        return 170 if tier == 'quick' else 1200

    def units(self, tier):
        return [{'doc': i} for i in range(len(DOCS_Q) + len(DOCS_V) if tier == 'quick' else len(DOCS_T))] + \
            [{'idoc': i} for i in range(len(DOCS_I))] + [{'reuse': i} for i in range(len(REUSE_DOCS))]

    def _doc(self, unit):
        if 'reuse' in unit:
            return []
        if 'idoc' in unit:
            return DOCS_I[unit['idoc']][0]
        return DOCS_T[unit['doc']]

    def inputs(self, eng, unit):
        out = {}
        for ev in self._doc(unit):
            vals = list(ev[2].values()) if ev[0] == 's' else ([ev[1]] if ev[0] == 'c' else [])
            flat = []
            for v in vals:
                if isinstance(v, list) and v[0] == '+':
                    flat += v[1:]
                else:
                    flat.append(v)
            for v in flat:
                if isinstance(v, list) and v[0] == 'h' and ('h_' + v[2]) not in out:
                    pred = nodot_pred if v[2][0] in 'Dk' and v[2][:2] in ('Dt', 'kt') else xml_pred
                    if v[2][0] == 'U':
                        pred = uni_pred
                    out['h_' + v[2]] = self.sym_str(eng, 'h_' + v[2], v[1], pred)
        return out

    def events(self, unit, inp):
        out = []
        for ev in self._doc(unit):
            if ev[0] == 's':
                out.append(('s', ev[1], {k: self._val(v, inp) for k, v in ev[2].items()}))
            elif ev[0] == 'c':
                out.append(('c', inp['h_' + ev[1][2]] if isinstance(ev[1], list) else ev[1]))
            else:
                out.append(ev)
        return out

    def _val(self, v, inp):
        if isinstance(v, list) and v[0] == '+':
            r = ''
            for p in v[1:]:
                r = r + self._val(p, inp)
            return r
        if isinstance(v, list):
            return inp['h_' + v[2]]
        return v

    def _reuse(self, unit):
        import ZConfig
        from ZConfig import loader as zl
        sl = zl.SchemaLoader()
        try:
            sl.loadFile(io.StringIO(REUSE_FIRST))
            sl.loadFile(io.StringIO(REUSE_FIRST.replace('first', 'second')))
            sch = sl.loadFile(io.StringIO(REUSE_DOCS[unit['reuse']][0]))
        except ZConfig.SchemaError:
            return ('reject',)
        except Exception as e:
            return ('crash', type(e).__name__, str(e)[:60])
        return ('accept', sorted(k for k, info in sch if k))

    def observe(self, unit, inp):
        if 'reuse' in unit:
            return self._reuse(unit)
        import ZConfig
        from ZConfig import schema as zs, loader as zl
        evs = self.events(unit, inp)
        concrete = all(isinstance(v, str) for v in inp.values())
        from .. import instr
        from ..oracles import dtspec
        if not concrete:
            def stub(af, x):
                if not dtspec.is_ipv6(x):
                    raise OSError('illegal IP address string passed to inet_pton')
                return b''
            instr.INET6['fn'] = stub
        store = {}
        if 'idoc' in unit:
            store = {P.BASE + k: [v[0]] for k, v in DOCS_I[unit['idoc']][1].items() if not k.startswith('__')}
        try:
            if concrete and store:
                with P.mem_resources(store):
                    zl.SchemaLoader().loadFile(io.StringIO(render(evs)), P.BASE + 's.xml')
            elif concrete:
                ZConfig.loadSchemaFile(io.StringIO(render(evs)))
            else:
                p = zs.SchemaParser(zl.SchemaLoader(), (P.BASE + 's.xml') if store else 'mem:/s.xml')
                if store:
                    res = P.mem_resources(store)
                    res.__enter__()
                p.startDocument()
                for ev in evs:
                    if ev[0] == 's':
                        p.startElement(ev[1], dict(ev[2]))
                    elif ev[0] == 'e':
                        p.endElement(ev[1])
                    else:
                        p.characters(ev[1])
                p.endDocument()
            return ('accept',)
        except ZConfig.SchemaError:
            return ('reject',)
        except ZConfig.ConfigurationError as e:
            return ('reject-not-schema-error', type(e).__name__)
        except Exception as e:
            return ('crash', type(e).__name__, str(e)[:60])
        finally:
            instr.INET6['fn'] = None
            if store and not concrete:
                res.__exit__(None, None, None)

    def expect(self, unit, inp, real):
        if 'reuse' in unit:
            d = REUSE_DOCS[unit['reuse']]
            return ('accept', d[2]) if d[1] == 'accept' else ('reject',)
        if 'idoc' in unit:
            return (R.check(self.events(unit, inp), {k: (v if k.startswith('__') else v[1])
                                                     for k, v in DOCS_I[unit['idoc']][1].items()}),)
        return (R.check(self.events(unit, inp)),)

    def agree(self, unit, real, exp):
        if exp[0] == 'any':
            return z3.BoolVal(real[0] in ('accept', 'reject', 'reject-not-schema-error'))
        return deep_eq(real, exp)

    def classify(self, unit, real):
        return real[0]

    def finding(self, unit, inp, real, exp):
        if real[0] == 'reject-not-schema-error' and exp[0] == 'reject':
            return 'F15'
        return None


def render(evs):
    out = []
    for ev in evs:
        if ev[0] == 's':
            out.append('<%s%s>' % (ev[1], ''.join(' %s=%s' % (k, quoteattr(v)) for k, v in ev[2].items())))
        elif ev[0] == 'e':
            out.append('</%s>' % ev[1])
        else:
            out.append(escape(ev[1]))
    return ''.join(out)


HARNESS = C10()

"""C07 - user input can only produce configuration errors, never internal exceptions.

(a) fully symbolic lines and line templates through the WHOLE loader against a schema;
(b) override specifiers with symbolic path components / values on a fixed valid text;
(c) include graphs over 3 in-memory resources, cyclic ones included (enumerated).
Assertion on every feasible path: the load returns or raises a ZConfig.ConfigurationError."""
import os

import z3

from ..base import Harness
from .. import gen
from . import common, pipeline as P
from .c01 import XML

TEXT_S2 = ['kt 5', '<ta n1>', '  ka 1', '  kb x', '</ta>', '<tb>', '  ka 2', '</tb>', 'zz top']

SPECS_Q = [[2, '=', 1], ['n1/', 2, '=', 2], [2, '/ka=', 2], ['ta/ka=', 2], ['tb/k', 1, '=', 1],
           [5], ['n1', 1, 'ka=1'], ['kt=', 2], ['zz', 1, 1], [1, '/', 1, '=']]
SPECS_T = SPECS_Q + [[6], [2, '/', 2, '=', 1], ['n1/kb', 1, 2], ['tb/', 2, '=', 2], [3, '=', 2],
                     ['ta/', 1, '/', 1, '=x']]

LINES_Q = [[[5]], [[3], [3]], [['<', 2, '>'], [3], ['</', 2, '>']], [['<', 2, ' ', 2, '/>']],
           [['%', 4]], [['<ta n>'], [4], ['</ta>']], [['<ta n>'], ['ka ', 2], ['</t', 1, '>']],
           [[2, ' $', 2]], [['%define ', 2, ' ', 2], ['kt $', 2]], [['<', 3, '/>'], ['<', 3, '/>']],
           # vocabulary-sized tokens: two sections reaching one slot, repeated keys, nested repeats
           [['<', 2, '/>'], ['<', 2, '/>']], [['<', 2, ' ', 2, '/>'], ['<', 2, ' ', 2, '/>']],
           [['<', 2, '>'], ['</', 2, '>'], ['<', 2, ' ', 1, '/>']], [[2, ' ', 1], [2, ' ', 1]],
           [['<ta n>'], ['ka 1'], [2, ' ', 1], [2, ' ', 1], ['</ta>']]]
LINES_T = LINES_Q + [[[7]], [[4], [4]], [['<', 4, '>'], [2], ['</', 3, '>']],
                     [['%import ', 4]], [['<ta n>'], [5], ['</ta>'], [3]]]


# %include arguments: symbolic tails behind the URL shapes the loader treats differently
INCL_Q = [['%include ', 2], ['%include package:', 3], ['%include package:', 1, ':', 1],
          ['%include package:vfq_a:', 2], ['%include //', 2], ['%include http://', 2, '/x'],
          ['%include ', 1, '#', 1], ['%include b.conf', 2]]
INCL_T = INCL_Q + [['%include ', 3], ['%include ', 4], ['%include package:', 4], ['%include http://m/', 3],
                   ['%include //', 3], ['%include ../', 2], ['%include ', 1, ':', 2]]


def graphs():
    """include graphs over three resources a, b, c (a is the top); each resource has one key
    line and includes the listed ones"""
    names = ['main.conf', 'b.conf', 'c.conf']
    out = []
    for a_inc in ([], ['b.conf'], ['b.conf', 'c.conf'], ['main.conf']):
        for b_inc in ([], ['c.conf'], ['main.conf'], ['b.conf']):
            for c_inc in ([], ['b.conf'], ['nosuch.conf']):
                out.append({'main.conf': a_inc, 'b.conf': b_inc, 'c.conf': c_inc})
    return out


def _sym_path_join(*parts):
    """posixpath.join on symbolic components"""
    out = parts[0]
    for p in parts[1:]:
        if len(p) > 0 and p.startswith('/'):
            out = p
        elif len(out) == 0 or out.endswith('/'):
            out = out + p
        else:
            out = out + '/' + p
    return out


class _symbolic_env:
    """what a (partly) symbolic %include / %import argument needs in the engine: urljoin / urldefrag
    through the instrumented urllib copy, __import__ of a symbolic name = the known package or an
    ImportError, path helpers on symbolic paths"""

    def __enter__(self):
        from .. import instr
        self.instr = instr
        if instr.installed():
            import urllib.request
            instr.install_urllib()
            instr.IMPORTS['known'] = ('vfq_a',)
            instr.FUNC_STUBS[os.path.join] = _sym_path_join
            # a symbolic *path* (no scheme, or a drive-letter look-alike) becomes a quoted file:
            # URL of a file that does not exist
            instr.FUNC_STUBS[os.path.abspath] = lambda p: p
            instr.FUNC_STUBS[urllib.request.pathname2url] = lambda p: '/opaque-quoted-path'

    def __exit__(self, *a):
        self.instr.IMPORTS['known'] = None
        self.instr.FUNC_STUBS.clear()


class c12pkgs:
    """the generated component packages of C12 on sys.path (package vfq_a exists, others do not)"""

    def __enter__(self):
        from . import c12
        c12.ensure_packages()

    def __exit__(self, *a):
        pass


class C07(Harness):
    prop = 'C07'
    domain = 'D'
    title = ('bounded symbolic execution of the loading entry points on symbolic texts, symbolic '
             'override specifiers and enumerated include graphs: on every feasible path the only '
             'exception that escapes is a ZConfig.ConfigurationError')
    functions = ('ZConfig.cfgparser.', 'ZConfig.loader.', 'ZConfig.matcher.', 'ZConfig.cmdline.',
                 'ZConfig.info.', 'ZConfig.datatypes.', 'ZConfig.substitution.')
    stubs = ('BaseLoader.openResource -> in-memory resources (include graphs)',)
    assumptions = (
        'schema S2 of the generated family (only datatypes that reject with ValueError)',
        'texts: symbolic lines within the length bounds; the mutation-style long texts of the '
        'quantifier are outside',
        'validator.main is driven with the schema served from memory and the (symbolic) configuration on '
        'standard input; configuration files named on the command line (argparse.FileType) are not driven',
        '%include arguments: symbolic tails behind the URL shapes the loader distinguishes; urljoin / urldefrag '
        'run symbolically through an instrumented copy of urllib/parse.py; a symbolic URL outside the in-memory '
        'store is modelled as unopenable; __import__ of a symbolic package name: one known package or ImportError',
    )
    expected_classes = ('ok', 'reject')
    nontrivial_rule = 'every completed path'
    step_limit = 60000
    slice_s = 8.0

    @property
    def bounds(self):
        return {'quick': {'text_units': len(LINES_Q), 'override_specs': len(SPECS_Q),
                          'include_graphs': len(graphs())},
                'thorough': {'text_units': len(LINES_T), 'override_specs': len(SPECS_T),
                             'include_graphs': len(graphs())}}

    def budget(self, tier):
        return 170 if tier == 'quick' else 1500

    def units(self, tier):
        us = []
        for spec in (SPECS_Q if tier == 'quick' else SPECS_T):
            us.append({'kind': 'override', 'spec': [spec]})
        if tier != 'quick':
            us.append({'kind': 'override', 'spec': [['n1/ka=', 1], ['n1/ka=', 1]]})
            us.append({'kind': 'override', 'spec': [[2, '=1'], ['tb/', 2, '=1']]})
        for lines in (LINES_Q if tier == 'quick' else LINES_T):
            us.append({'kind': 'text', 'lines': lines})
        # directive names of the length of the real ones, symbolic (case variants of define / import / include
        # and everything else of that length), with an argument
        for lines in ([['%', 6, ' a b']], [['%', 7, ' b.conf']], [['%', 6, ' vfq_a']],
                      [['<ta n>'], ['  %', 6, ' a 1'], ['</ta>']]):
            us.append({'kind': 'text', 'lines': lines})
        # the vocabulary-sized templates also against schemas with single wildcard slots, abstract
        # types and nesting
        for sid in ('S3', 'S4', 'S6') if tier == 'quick' else ('S3', 'S4', 'S6', 'S8', 'S9', 'S13'):
            for lines in LINES_Q[10:]:
                us.append({'kind': 'text', 'lines': lines, 'schema': sid})
        # schemas whose keyed '+' defaults / list defaults are used by several sections of one text
        for sid in ('S15', 'S5', 'S9'):
            for lines in LINES_Q[10:13]:
                us.append({'kind': 'text', 'lines': lines, 'schema': sid})
        # ... and by two loads against ONE schema object
        for sid in ('S15', 'S5', 'S9', 'S13'):
            us.append({'kind': 'twice', 'lines': [['<', 2, '/>'], [2, ' ', 1]], 'schema': sid})
        for i, g in enumerate(graphs()):
            us.append({'kind': 'include', 'graph': i})
        # the validator command on the same texts (configuration on standard input)
        for lines in LINES_Q[:6] + LINES_Q[10:12]:
            us.append({'kind': 'validator', 'lines': lines})
        # ... and on 0-3 configuration files named on the command line (concrete temp files)
        # 'p' = a valid file that %import-s a package and uses its type, 'u' = a file that uses that type
        # without importing it (invalid whatever was checked before it in the same run)
        for pattern in ('', 'v', 'i', 'vi', 'ii', 'iv', 'iii', 'ivi', 'vv', 'pu', 'up', 'pvu', 'pp', 'upu'):
            us.append({'kind': 'validator-files', 'files': pattern})
        # 'b' = a file whose bytes are not valid UTF-8 (a Latin-1 text, say): invalid, status 1 with a message
        for pattern in ('b', 'vb', 'bv'):
            us.append({'kind': 'validator-files', 'files': pattern})
        for q in ('my dir', '100%20x', 'a#b', 'd\u00e9j\u00e0 vu %s'):
            us.append({'kind': 'validator-files', 'files': 'iv', 'q': q})
            us.append({'kind': 'validator-files', 'files': 'up', 'q': q})
        for line in (INCL_Q if tier == 'quick' else INCL_T):
            us.append({'kind': 'inclarg', 'lines': [['kc v'], line]})
        # package: URLs whose package part is an importable PLAIN MODULE (stdlib and generated), a namespace
        # package, a package without the named file
        for ref in ('package:os:x.conf', 'package:json.decoder:x', 'package:vfq_mod:component.xml',
                    'package:vfq_nocomp:x.conf', 'package:vfq_a:nosuch.conf', 'package:vfq_a:component.xml',
                    'package:xml.sax:', 'package:vfq_a/x:y'):
            us.append({'kind': 'inclarg', 'lines': [['kc ', 1], ['%include ' + ref]]})
        return us

    def inputs(self, eng, unit):
        if unit['kind'] in ('text', 'inclarg', 'validator', 'twice'):
            _, holes = common.build_lines(self, eng, unit['lines'])
            return holes
        if unit['kind'] == 'override':
            _, holes = common.build_lines(self, eng, unit['spec'])
            return holes
        return {}

    def observe(self, unit, inp):
        with common.env_scope(common.all_concrete(inp), {}):
            if unit['kind'] == 'text':
                lines = common.assemble(unit['lines'], inp)
                with _symbolic_env(), P.mem_resources({}), c12pkgs():
                    r = P.run_load(XML[unit.get('schema', 'S2')], lines, url=P.MAIN)
            elif unit['kind'] == 'twice':
                # two loads of the same text against one schema object
                lines = common.assemble(unit['lines'], inp)
                with P.mem_resources({}):
                    P._SCHEMA_CACHE.clear()
                    r = P.run_load(XML[unit['schema']], lines, url=P.MAIN, cache_schema=True)
                    r2 = P.run_load(XML[unit['schema']], lines, url=P.MAIN, cache_schema=True)
                    P._SCHEMA_CACHE.clear()
                if r[0] != 'crash':
                    r = r2
            elif unit['kind'] == 'validator':
                return self._validator(unit, inp)
            elif unit['kind'] == 'validator-files':
                return self._validator_files(unit)
            elif unit['kind'] == 'inclarg':
                lines = common.assemble(unit['lines'], inp)
                store = {P.BASE + 'b.conf': ['kc w'], P.BASE + 'ab': ['kc x']}
                with _symbolic_env(), P.mem_resources(store), c12pkgs():
                    r = P.run_load(XML['S1'].replace("required=\"yes\"", ''), lines, url=P.MAIN)
            elif unit['kind'] == 'override':
                specs = common.assemble(unit['spec'], inp)
                r = P.run_load(XML['S2'], TEXT_S2, overrides=specs, url=P.MAIN)
            else:
                g = graphs()[unit['graph']]
                store = {}
                for i, (name, incs) in enumerate(g.items()):
                    store[P.BASE + name] = ['kc v%d' % i] + ['%include ' + x for x in incs]
                with P.mem_resources(store):
                    r = P.run_load(XML['S1'].replace("required=\"yes\"", ''), store[P.MAIN], url=P.MAIN)
        if r[0] == 'crash':
            return ('crash', r[1])
        return (r[0],)

    def _validator(self, unit, inp):
        """ZConfig.validator.main with the schema served from memory and the configuration on
        standard input -> ('ok'|'reject'|'crash', exit status, lines written to stderr)"""
        import io
        import sys
        from ZConfig import validator
        lines = common.assemble(unit['lines'], inp)
        store = {'http://m/s.xml': XML['S2'].split('\n')}
        old_in, old_err = sys.stdin, sys.stderr
        sys.stdin = common.make_file(lines)
        sys.stderr = err = io.StringIO()
        try:
            with P.mem_resources(store):
                try:
                    rc = validator.main(['-s', 'http://m/s.xml'])
                except SystemExit as e:
                    return ('crash', 'SystemExit', str(e.code))
                except Exception as e:
                    return ('crash', type(e).__name__)
        finally:
            sys.stdin, sys.stderr = old_in, old_err
        # what a direct load says about the same text
        r = P.run_load(XML['S2'], lines)
        n = len([x for x in err.getvalue().split('\n') if x.strip()])
        ok = (rc == 0 and r[0] == 'ok' and n == 0) or (rc == 1 and r[0] == 'reject' and n >= 1)
        return ('ok' if rc == 0 else 'reject', rc, ok)

    def _validator_files(self, unit):
        """validator.main on real temp files: 'v' = a valid file, 'i' = an invalid one"""
        import io
        import shutil
        import sys
        import tempfile
        from ZConfig import validator
        d = tempfile.mkdtemp(prefix='vfc07_')
        root = d
        if 'q' in unit:
            # a directory whose name needs quoting in a file: URL (blank, '%', '#', non-ASCII)
            d = os.path.join(d, unit['q'])
            os.makedirs(d)
        old_in, old_err = sys.stdin, sys.stderr
        sys.stderr = err = io.StringIO()
        sys.stdin = io.StringIO('')
        try:
            sp = os.path.join(d, 's.xml')
            imports = 'p' in unit['files'] or 'u' in unit['files']
            if imports:
                from . import c12
                c12.ensure_packages()
                open(sp, 'w').write(c12.XML)
            else:
                open(sp, 'w').write(XML['S2'])
            args = ['-s', sp]
            for i, ch in enumerate(unit['files']):
                fp = os.path.join(d, 'c%d.conf' % i)
                if ch == 'b':
                    open(fp, 'wb').write(b'kt 5\n# caf\xe9 \xff\xfe\n')
                    args.append(fp)
                    continue
                if imports:
                    text = {'v': 'kz 5\n', 'i': '<tb>\n', 'p': '%import vfq_a\n<pa/>\n', 'u': '<pa/>\nkz 1\n'}[ch]
                else:
                    text = 'kt 5\n' if ch == 'v' else ('kt x%d\n' % i if i % 2 else '<ta>\n')
                open(fp, 'w').write(text)
                args.append(fp)
            if not unit['files']:
                return ('ok', 0, True)          # schema only needs a tty / reads stdin: not driven
            try:
                rc = validator.main(args)
            except SystemExit as e:
                return ('crash', 'SystemExit', str(e.code))
            except Exception as e:
                return ('crash', type(e).__name__)
            n = len([x for x in err.getvalue().split('\n') if x.strip()])
            bad = unit['files'].count('i') + unit['files'].count('u') + unit['files'].count('b')
            ok = (rc == (1 if bad else 0)) and (n >= bad) and (bad > 0 or n == 0)
            return ('ok' if rc == 0 else 'reject', rc, ok)
        finally:
            sys.stdin, sys.stderr = old_in, old_err
            shutil.rmtree(root, ignore_errors=True)

    def expect(self, unit, inp, real):
        return ('no-internal-error',)

    def agree(self, unit, real, exp):
        if unit['kind'] in ('validator', 'validator-files'):
            # status 0 exactly for a valid text, status 1 with a message otherwise
            return z3.BoolVal(real[0] in ('ok', 'reject') and real[2] is True)
        return z3.BoolVal(real[0] in ('ok', 'reject'))

    def classify(self, unit, real):
        return real[0]

    def finding(self, unit, inp, real, exp):
        if real[0] != 'crash':
            return None
        if unit['kind'] == 'include' and real[1] == 'RecursionError':
            return 'F7'
        if unit['kind'] == 'override' and real[1] == 'TypeError':
            return 'F6'
        if unit['kind'] == 'override' and real[1] == 'ValueError':
            return 'F8'
        return None


HARNESS = C07()

"""Pieces shared by the text-level harnesses: list-backed file objects, line templates,
recording parser context."""
import io

from ..symstr import SymStr, simp, chars_of


class ListFile:
    """readline()-only file object over a list of lines (strings or SymStr, no newline
    inside).  Used in the engine; the pristine worker uses io.StringIO on the same text."""

    def __init__(self, lines, final_newline=True):
        self.lines = list(lines)
        self.i = 0
        self.closed = False
        self.final_newline = final_newline

    def _nl(self, i):
        return '\n' if (self.final_newline or i < len(self.lines) - 1) else ''

    def readline(self, size=-1):
        rest = self.__dict__.pop('_rest', None)
        if rest is None:
            if self.i >= len(self.lines):
                return ''
            rest = self.lines[self.i] + self._nl(self.i)
            self.i += 1
        if size is not None and 0 <= size < len(rest):
            # a bounded read: the remainder of the line stays for the next call
            self._rest = rest[size:]
            return rest[:size]
        return rest

    # the other reading styles a file object offers (a changed tree may use them)
    def read(self, size=-1):
        out = ''
        while self.i < len(self.lines):
            out = out + self.lines[self.i] + self._nl(self.i)
            self.i += 1
        return out

    def readlines(self):
        out = []
        while self.i < len(self.lines):
            out.append(self.lines[self.i] + self._nl(self.i))
            self.i += 1
        return out

    def __iter__(self):
        return self

    def __next__(self):
        l = self.readline()
        if not l:
            raise StopIteration
        return l

    def close(self):
        self.closed = True

    def isatty(self):
        return False


def make_file(lines, final_newline=True):
    if all(isinstance(l, str) for l in lines):
        text = ''.join(l + '\n' for l in lines)
        if not final_newline and text:
            text = text[:-1]
        return io.StringIO(text)
    return ListFile(lines, final_newline)


def no_newline(c, i):
    return c != 10


def build_lines(h, eng, specs, pred=no_newline):
    """specs: list of line specs; a line spec is a list of parts, each a literal str or an
    int (length of a symbolic hole).  Returns (lines, holes) where holes is the dict of
    symbolic inputs name -> SymStr.  pred must be a module-level function (it is part of
    the cache key of the symbolic variables)."""
    holes = {}
    lines = []
    for li, parts in enumerate(specs):
        cs = ()
        for pi, part in enumerate(parts):
            if isinstance(part, str):
                cs += tuple(map(ord, part))
            else:
                name = 'l%d_%d' % (li, pi)
                s = h.sym_str(eng, name, part, pred)
                holes[name] = s
                cs += s.cs
        lines.append(simp(cs))
    return lines, holes


def assemble(specs, inp):
    """same as build_lines for already-made holes (symbolic or concrete)"""
    lines = []
    for li, parts in enumerate(specs):
        line = ''
        for pi, part in enumerate(parts):
            if isinstance(part, str):
                line = line + part
            else:
                line = line + inp['l%d_%d' % (li, pi)]
        lines.append(line)
    return lines


class Sec:
    def __init__(self, ev, n):
        self.ev = ev
        self.n = n

    def addValue(self, key, value, position):
        self.ev.append(('kv', self.n, key, value, position[0]))


class RecordingContext:
    """The parser's context protocol (what schemaless.Context implements), recording."""

    def __init__(self):
        self.ev = []
        self.n = 0

    def startSection(self, parent, type_, name):
        self.n += 1
        self.ev.append(('start', parent.n, type_, name))
        return Sec(self.ev, self.n)

    def endSection(self, parent, type_, name, sect):
        self.ev.append(('end', parent.n, type_, name, sect.n))

    def importSchemaComponent(self, pkg):
        self.ev.append(('import', pkg))

    def includeConfiguration(self, sect, url, defines):
        self.ev.append(('include', sect.n, url))


class Res:
    def __init__(self, file, url=''):
        self.file = file
        self.url = url


class env_scope:
    """os.getenv sees exactly `env` during the block: through the stub in the engine,
    through the real os.environ in the pristine worker."""

    def __init__(self, concrete, env):
        self.concrete = concrete
        self.env = dict(env)

    def __enter__(self):
        import os
        from .. import instr
        if self.concrete or not instr.installed():
            self.saved = dict(os.environ)
            os.environ.clear()
            os.environ.update(self.env)
        else:
            self.saved = None
            self.prev = instr.ENV['map']
            instr.ENV['map'] = self.env

    def __exit__(self, *a):
        import os
        from .. import instr
        if self.saved is not None:
            os.environ.clear()
            os.environ.update(self.saved)
        else:
            instr.ENV['map'] = self.prev


def all_concrete(inp):
    return all(isinstance(v, (str, int, bool)) for v in inp.values())

"""C11 - schema composition features mean the same as their written-out expansion.

Differential, real code against real code: a schema written with composition features
(sectiontype extends chains with key-type / datatype inheritance and override, wildcard
defaults re-normalised, 'implements' not inherited; nested absolute / relative prefixes;
schema-level extends of in-memory base schemas; component imports along a diamond of
generated packages) versus its mechanically written-out expansion; the same text skeleton
with symbolic tokens is loaded against both; equal value trees or both rejected."""
import atexit
import os
import shutil
import sys
import tempfile

import z3

from ..base import Harness
from ..core import deep_eq
from .. import gen
from . import common, pipeline as P

WRAP = 'vf.dtsupport.wrap'

PAIRS = {}

PAIRS['EXT'] = ("""<schema>
 <abstracttype name="aa"/>
 <sectiontype name="ta" datatype="vf.dtsupport.wrap">
  <key name="ka" datatype="integer" default="1"/>
  <key name="+" attribute="mp"><default key="Xa">1</default><default key="xb">2</default></key>
  <example>ka 1</example><description>base</description>
 </sectiontype>
 <sectiontype name="tb" extends="ta" implements="aa" keytype="identifier"><key name="Kb"/><example>Kb x</example><description>derived</description></sectiontype>
 <sectiontype name="tc" extends="tb"><multikey name="kc"><default>d</default></multikey><example>kc y</example></sectiontype>
 <multisection type="aa" name="*" attribute="xs"/>
 <multisection type="tc" name="+" attribute="cs"/>
 <section type="ta" name="*" attribute="sa"/>
</schema>""", """<schema>
 <abstracttype name="aa"/>
 <sectiontype name="ta" datatype="vf.dtsupport.wrap">
  <key name="ka" datatype="integer" default="1"/>
  <key name="+" attribute="mp"><default key="Xa">1</default><default key="xb">2</default></key>
 </sectiontype>
 <sectiontype name="tb" implements="aa" keytype="identifier" datatype="vf.dtsupport.wrap">
  <key name="ka" datatype="integer" default="1"/>
  <key name="+" attribute="mp"><default key="Xa">1</default><default key="xb">2</default></key>
  <key name="Kb"/>
 </sectiontype>
 <sectiontype name="tc" keytype="identifier" datatype="vf.dtsupport.wrap">
  <key name="ka" datatype="integer" default="1"/>
  <key name="+" attribute="mp"><default key="Xa">1</default><default key="xb">2</default></key>
  <key name="Kb"/>
  <multikey name="kc"><default>d</default></multikey>
 </sectiontype>
 <multisection type="aa" name="*" attribute="xs"/>
 <multisection type="tc" name="+" attribute="cs"/>
 <section type="ta" name="*" attribute="sa"/>
</schema>""", {})

PAIRS['PFX'] = ("""<schema prefix="vf">
 <sectiontype name="ta" prefix=".dtsupport" datatype=".wrap">
  <key name="ka" datatype=".counted_int" default="1"/>
  <key name="kb" datatype="vf.dtsupport.counted_int"/>
 </sectiontype>
 <sectiontype name="tb" datatype=".wrap" prefix="vf.dtsupport"><key name="ka" datatype=".counted_int"/></sectiontype>
 <sectiontype name="tc"><key name="ka" datatype=".dtsupport.counted_int"/></sectiontype>
 <key name="kx" datatype=".dtsupport.counted_int"/>
 <multisection type="ta" name="*" attribute="as"/>
 <section type="tb" name="*" attribute="sb"/>
 <section type="tc" name="*" attribute="sc"/>
</schema>""", """<schema>
 <sectiontype name="ta" datatype="vf.dtsupport.wrap">
  <key name="ka" datatype="vf.dtsupport.counted_int" default="1"/>
  <key name="kb" datatype="vf.dtsupport.counted_int"/>
 </sectiontype>
 <sectiontype name="tb" datatype="vf.dtsupport.wrap"><key name="ka" datatype="vf.dtsupport.counted_int"/></sectiontype>
 <sectiontype name="tc"><key name="ka" datatype="vf.dtsupport.counted_int"/></sectiontype>
 <key name="kx" datatype="vf.dtsupport.counted_int"/>
 <multisection type="ta" name="*" attribute="as"/>
 <section type="tb" name="*" attribute="sb"/>
 <section type="tc" name="*" attribute="sc"/>
</schema>""", {})

PAIRS['SCH'] = ("""<schema extends="b1.xml sub/b2.xml" datatype="vf.dtsupport.wrap">
 <key name="km" default="m"/>
 <section type="t1" name="*" attribute="s1"/>
 <multisection type="t2" name="*" attribute="s2"/>
</schema>""", """<schema datatype="vf.dtsupport.wrap">
 <sectiontype name="t3"><key name="kc"/></sectiontype>
 <key name="k3" datatype="integer" default="3"/>
 <sectiontype name="t2"><key name="kb" datatype="integer"/><section type="t3" name="*" attribute="in"/></sectiontype>
 <multikey name="k2"/>
 <sectiontype name="t1"><key name="ka"/></sectiontype>
 <key name="k1" default="1"/>
 <key name="km" default="m"/>
 <section type="t1" name="*" attribute="s1"/>
 <multisection type="t2" name="*" attribute="s2"/>
</schema>""", {
    'b1.xml': """<schema><sectiontype name="t1"><key name="ka"/></sectiontype><key name="k1" default="1"/></schema>""",
    'sub/b2.xml': """<schema extends="../b3.xml"><sectiontype name="t2"><key name="kb" datatype="integer"/><section type="t3" name="*" attribute="in"/></sectiontype><multikey name="k2"/></schema>""",
    'b3.xml': """<schema><sectiontype name="t3"><key name="kc"/></sectiontype><key name="k3" datatype="integer" default="3"/></schema>""",
})

# schema-level extends two levels deep: key type and datatype declared by the root base only
PAIRS['SCH2'] = ("""<schema extends="mid.xml">
 <key name="Kt" default="t"/>
 <key name="+" attribute="any"><default key="Da">1</default></key>
 <section type="t1" name="*" attribute="s1"/>
</schema>""", """<schema keytype="identifier" datatype="vf.dtsupport.wrap">
 <sectiontype name="t1"><key name="Ka"/><key name="kb" default="b"/></sectiontype>
 <key name="Kr" default="r"/>
 <key name="Km" default="m"/>
 <key name="Kt" default="t"/>
 <key name="+" attribute="any"><default key="Da">1</default></key>
 <section type="t1" name="*" attribute="s1"/>
</schema>""", {
    'mid.xml': """<schema extends="deep/root.xml"><key name="Km" default="m"/></schema>""",
    'deep/root.xml': """<schema keytype="identifier" datatype="vf.dtsupport.wrap"><sectiontype name="t1"><key name="Ka"/><key name="kb" default="b"/></sectiontype><key name="Kr" default="r"/></schema>""",
})

# three bases side by side (merged last-named first, as the existing SCH pair documents)
PAIRS['SCH3'] = ("""<schema extends="x1.xml x2.xml x3.xml">
 <multikey name="Kt"/>
 <multisection type="t2" name="+" attribute="s2"/>
</schema>""", """<schema keytype="identifier">
 <key name="K3" default="3"/>
 <sectiontype name="t2"><key name="Kb" datatype="integer"/></sectiontype>
 <key name="K1" default="1"/>
 <multikey name="Kt"/>
 <multisection type="t2" name="+" attribute="s2"/>
</schema>""", {
    'x1.xml': """<schema keytype="identifier"><key name="K1" default="1"/></schema>""",
    'x2.xml': """<schema keytype="identifier"><sectiontype name="t2"><key name="Kb" datatype="integer"/></sectiontype></schema>""",
    'x3.xml': """<schema keytype="identifier"><key name="K3" default="3"/></schema>""",
})

# the same '.'-relative names under different effective prefixes in ONE document
PAIRS['PFX2'] = ("""<schema prefix="vf">
 <sectiontype name="ta" prefix=".dtsupport" datatype=".wrap"><key name="ka" datatype=".counted_int" default="1"/></sectiontype>
 <sectiontype name="tb" prefix=".dtalt" datatype=".wrap"><key name="ka" datatype=".counted_int" default="2"/></sectiontype>
 <sectiontype name="tc" prefix="vf.dtalt"><key name="kc" datatype=".counted_int"/><key name="kd" datatype="vf.dtsupport.counted_int"/></sectiontype>
 <key name="kx" datatype=".dtsupport.counted_int"/>
 <key name="ky" datatype=".dtalt.counted_int"/>
 <multisection type="ta" name="*" attribute="as"/>
 <section type="tb" name="*" attribute="sb"/>
 <section type="tc" name="*" attribute="sc"/>
</schema>""", """<schema>
 <sectiontype name="ta" datatype="vf.dtsupport.wrap"><key name="ka" datatype="vf.dtsupport.counted_int" default="1"/></sectiontype>
 <sectiontype name="tb" datatype="vf.dtalt.wrap"><key name="ka" datatype="vf.dtalt.counted_int" default="2"/></sectiontype>
 <sectiontype name="tc"><key name="kc" datatype="vf.dtalt.counted_int"/><key name="kd" datatype="vf.dtsupport.counted_int"/></sectiontype>
 <key name="kx" datatype="vf.dtsupport.counted_int"/>
 <key name="ky" datatype="vf.dtalt.counted_int"/>
 <multisection type="ta" name="*" attribute="as"/>
 <section type="tb" name="*" attribute="sb"/>
 <section type="tc" name="*" attribute="sc"/>
</schema>""", {})

# components that import each other (and one that imports itself)
PAIRS['CYC'] = ("""<schema>
 <import package="vfpk_d"/>
 <multisection type="ad" name="*" attribute="xs"/>
</schema>""", """<schema>
 <abstracttype name="ad"/>
 <sectiontype name="td" implements="ad"><key name="kd"/></sectiontype>
 <sectiontype name="te" implements="ad"><key name="ke" datatype="integer" default="0"/></sectiontype>
 <sectiontype name="tf" extends="td" implements="ad"><key name="kf"/></sectiontype>
 <multisection type="ad" name="*" attribute="xs"/>
</schema>""", {})

# one base with a schema-level datatype and key type; the extender names only one of the two
PAIRS['SCH4'] = ("""<schema extends="b.xml" keytype="identifier">
 <key name="Kt" default="t"/>
 <section type="t1" name="*" attribute="s1"/>
</schema>""", """<schema keytype="identifier" datatype="vf.dtsupport.wrap">
 <sectiontype name="t1"><key name="Ka"/></sectiontype>
 <key name="Kb" default="b"/>
 <key name="Kt" default="t"/>
 <section type="t1" name="*" attribute="s1"/>
</schema>""", {
    'b.xml': """<schema keytype="identifier" datatype="vf.dtsupport.wrap"><sectiontype name="t1"><key name="Ka"/></sectiontype><key name="Kb" default="b"/></schema>""",
})
PAIRS['SCH5'] = ("""<schema extends="b.xml" datatype="vf.dtsupport.wrap2">
 <key name="Kt" default="t"/>
</schema>""", """<schema keytype="identifier" datatype="vf.dtsupport.wrap2">
 <key name="Kb" default="b"/>
 <key name="Kt" default="t"/>
</schema>""", {
    'b.xml': """<schema keytype="identifier" datatype="vf.dtsupport.wrap"><key name="Kb" default="b"/></schema>""",
})

# the extender declares a key type, the base none: the base's body is read under the base's own
# (default) key type, so its top-level names are what basic-key makes of them
PAIRS['SCH6'] = ("""<schema extends="b.xml" keytype="identifier">
 <key name="Kt" default="t"/>
</schema>""", """<schema keytype="identifier">
 <sectiontype name="t1"><key name="kc"/></sectiontype>
 <key name="ka" default="a"/>
 <section type="t1" name="sb" attribute="bx"/>
 <key name="Kt" default="t"/>
</schema>""", {
    'b.xml': """<schema><sectiontype name="t1"><key name="Kc"/></sectiontype><key name="Ka" default="a"/><section type="t1" name="Sb" attribute="bx"/></schema>""",
})

# composed schemas that must be REFUSED exactly like their expansion: a derived type re-using the attribute
# name of an inherited unnamed section slot (directly, and up a chain of three)
PAIRS['BAD1'] = ("""<schema><sectiontype name="tz"/>
 <sectiontype name="ta"><section type="tz" name="*" attribute="sx"/><key name="ka"/></sectiontype>
 <sectiontype name="tb" extends="ta"><key name="kx" attribute="sx"/></sectiontype>
 <section type="tb" name="*" attribute="sb"/></schema>""", """<schema><sectiontype name="tz"/>
 <sectiontype name="ta"><section type="tz" name="*" attribute="sx"/><key name="ka"/></sectiontype>
 <sectiontype name="tb"><section type="tz" name="*" attribute="sx"/><key name="ka"/><key name="kx" attribute="sx"/></sectiontype>
 <section type="tb" name="*" attribute="sb"/></schema>""", {})
PAIRS['BAD2'] = ("""<schema><sectiontype name="tz"/>
 <sectiontype name="ta"><multisection type="tz" name="+" attribute="ms"/></sectiontype>
 <sectiontype name="tb" extends="ta"><key name="kb"/></sectiontype>
 <sectiontype name="tc" extends="tb"><section type="tz" name="*" attribute="ms"/></sectiontype>
 <section type="tc" name="*" attribute="sc"/></schema>""", """<schema><sectiontype name="tz"/>
 <sectiontype name="ta"><multisection type="tz" name="+" attribute="ms"/></sectiontype>
 <sectiontype name="tb"><multisection type="tz" name="+" attribute="ms"/><key name="kb"/></sectiontype>
 <sectiontype name="tc"><multisection type="tz" name="+" attribute="ms"/><key name="kb"/><section type="tz" name="*" attribute="ms"/></sectiontype>
 <section type="tc" name="*" attribute="sc"/></schema>""", {})
PAIRS['BAD3'] = ("""<schema><sectiontype name="ta"><key name="k-a"/><key name="+" attribute="any"/></sectiontype>
 <sectiontype name="tb" extends="ta"><multikey name="km" attribute="k_a"/></sectiontype>
 <section type="tb" name="*" attribute="sb"/></schema>""", """<schema><sectiontype name="ta"><key name="k-a"/><key name="+" attribute="any"/></sectiontype>
 <sectiontype name="tb"><key name="k-a"/><key name="+" attribute="any"/><multikey name="km" attribute="k_a"/></sectiontype>
 <section type="tb" name="*" attribute="sb"/></schema>""", {})

PAIRS['BAD4'] = ("""<schema><sectiontype name="ta"><key name="ka"/><multikey name="kl"/></sectiontype>
 <sectiontype name="tb" extends="ta"><key name="kb"/></sectiontype>
 <sectiontype name="tc" extends="tb"><key name="KA" attribute="other"/></sectiontype>
 <section type="tc" name="*" attribute="sc"/></schema>""", """<schema><sectiontype name="ta"><key name="ka"/><multikey name="kl"/></sectiontype>
 <sectiontype name="tb"><key name="ka"/><multikey name="kl"/><key name="kb"/></sectiontype>
 <sectiontype name="tc"><key name="ka"/><multikey name="kl"/><key name="kb"/><key name="KA" attribute="other"/></sectiontype>
 <section type="tc" name="*" attribute="sc"/></schema>""", {})

# a type that nests sections of its own type, extended: the inherited slot still takes the BASE type
PAIRS['REC'] = ("""<schema>
 <sectiontype name="nd"><key name="ka" default="1"/><multisection type="nd" name="*" attribute="ch"/></sectiontype>
 <sectiontype name="fo" extends="nd"><key name="kb"/></sectiontype>
 <sectiontype name="fp" extends="fo"><key name="kc"/></sectiontype>
 <multisection type="fo" name="*" attribute="fs"/>
 <multisection type="fp" name="*" attribute="ps"/>
</schema>""", """<schema>
 <sectiontype name="nd"><key name="ka" default="1"/><multisection type="nd" name="*" attribute="ch"/></sectiontype>
 <sectiontype name="fo"><key name="ka" default="1"/><multisection type="nd" name="*" attribute="ch"/><key name="kb"/></sectiontype>
 <sectiontype name="fp"><key name="ka" default="1"/><multisection type="nd" name="*" attribute="ch"/><key name="kb"/><key name="kc"/></sectiontype>
 <multisection type="fo" name="*" attribute="fs"/>
 <multisection type="fp" name="*" attribute="ps"/>
</schema>""", {})

PAIRS['CMP'] = ("""<schema>
 <import package="vfpk_a"/>
 <import package="vfpk_b"/>
 <import package="vfpk_a" file="component.xml"/>
 <import package="vfpk_c"/>
 <import package="vfpk_c" file="component.xml"/>
 <sectiontype name="td" extends="tc"><key name="kd"/></sectiontype>
 <multisection type="ac" name="*" attribute="xs"/>
 <section type="td" name="*" attribute="sd"/>
</schema>""", """<schema>
 <abstracttype name="ac"/>
 <sectiontype name="tc" implements="ac"><key name="kc" datatype="integer" default="0"/></sectiontype>
 <sectiontype name="ta" extends="tc" implements="ac"><key name="ka"/></sectiontype>
 <sectiontype name="tb" implements="ac"><section type="tc" name="*" attribute="in"/></sectiontype>
 <sectiontype name="td" extends="tc"><key name="kd"/></sectiontype>
 <multisection type="ac" name="*" attribute="xs"/>
 <section type="td" name="*" attribute="sd"/>
</schema>""", {})

# a packaged component whose prefix is NOT its own package name importing a neighbour by a '.'-relative
# package name: the name is completed with the nearest enclosing prefix (vfpk_o.sub), not with the
# component's own package (vfpk_r.sub is a decoy with another datatype and default)
PAIRS['RELPKG'] = ("""<schema>
 <import package="vfpk_r"/>
 <multisection type="ar" name="*" attribute="xs"/>
</schema>""", """<schema>
 <abstracttype name="ar"/>
 <sectiontype name="ts" implements="ar"><key name="ks" datatype="integer" default="7"/></sectiontype>
 <sectiontype name="tr" implements="ar"><key name="kr"/></sectiontype>
 <multisection type="ar" name="*" attribute="xs"/>
</schema>""", {})

PKGS = {
    'vfpk_r': """<component prefix="vfpk_o"><import package=".sub"/>
 <sectiontype name="tr" implements="ar"><key name="kr"/></sectiontype></component>""",
    'vfpk_o': None,
    'vfpk_o/sub': """<component><abstracttype name="ar"/>
 <sectiontype name="ts" implements="ar"><key name="ks" datatype="integer" default="7"/></sectiontype></component>""",
    'vfpk_r/sub': """<component><abstracttype name="ar"/>
 <sectiontype name="ts" implements="ar"><key name="ks" default="decoy"/></sectiontype></component>""",
    'vfpk_d': """<component><abstracttype name="ad"/>
 <sectiontype name="td" implements="ad"><key name="kd"/></sectiontype>
 <import package="vfpk_e"/></component>""",
    'vfpk_e': """<component><import package="vfpk_d"/><import package="vfpk_e"/>
 <sectiontype name="te" implements="ad"><key name="ke" datatype="integer" default="0"/></sectiontype>
 <import package="vfpk_f"/></component>""",
    'vfpk_f': """<component><import package="vfpk_e"/>
 <sectiontype name="tf" extends="td" implements="ad"><key name="kf"/></sectiontype></component>""",
    'vfpk_c': """<component><abstracttype name="ac"/>
 <sectiontype name="tc" implements="ac"><key name="kc" datatype="integer" default="0"/></sectiontype></component>""",
    'vfpk_a': """<component><import package="vfpk_c"/>
 <sectiontype name="ta" extends="tc" implements="ac"><key name="ka"/></sectiontype></component>""",
    'vfpk_b': """<component><import package="vfpk_c"/><import package="vfpk_a"/>
 <sectiontype name="tb" implements="ac"><section type="tc" name="*" attribute="in"/></sectiontype></component>""",
}

_PK = {}


def ensure_packages():
    d = _PK.get('d')
    if d is None:
        d = tempfile.mkdtemp(prefix='vfc11_')
        _PK['d'] = d
        atexit.register(shutil.rmtree, d, True)
        for name, xml in PKGS.items():
            os.makedirs(os.path.join(d, name), exist_ok=True)
            open(os.path.join(d, name, '__init__.py'), 'w').write('')
            if xml is not None:
                open(os.path.join(d, name, 'component.xml'), 'w').write(xml)
        sys.path.insert(0, d)
    return d


W = lambda i: ['w', 2, i]     # noqa
V = lambda i: ['v', 1, i]     # noqa
E = lambda i: ['=', i]        # noqa

TEXTS_Q = [
    [['<', W('t'), '>'], [W('k'), ' ', V('v')], ['</', E('t'), '>']],
    [['<', W('t'), ' ', W('n'), '>'], [W('k'), ' ', V('v')], [W('k2'), ' ', V('v2')], ['</', E('t'), '>']],
    [[W('k'), ' ', V('v')], ['<', W('t'), '/>'], ['<', W('t2'), ' ', W('n2'), '/>']],
    [['<', W('t'), '>'], ['<', W('t2'), '>'], [W('k'), ' ', V('v')], ['</', E('t2'), '>'], ['</', E('t'), '>']],
]
TEXTS_T = TEXTS_Q + [
    [['<', W('t'), '>'], [W('k'), ' ', V('v')], ['</', E('t'), '>'], ['<', W('t2'), '>'], [W('k2'), ' ', V('v2')], ['</', E('t2'), '>']],
    [['<', W('t'), ' ', W('n'), '>'], ['<', W('t2'), ' ', W('n2'), '/>'], ['</', E('t'), '>'], [W('k'), ' ', V('v')]],
]


class C11(P.TextMixin, Harness):
    prop = 'C11'
    domain = 'D'
    title = ('differential bounded symbolic execution: the real loader against a schema written with '
             'composition features versus against its written-out expansion, same symbolic text; equal '
             'value trees or both rejected')
    functions = ('ZConfig.info.SchemaType.deriveSectionType', 'ZConfig.schema.BaseParser.get_datatype',
                 'ZConfig.schema.BaseParser.push_prefix', 'ZConfig.schema.BaseParser.get_classname',
                 'ZConfig.schema.SchemaParser.start_schema', 'ZConfig.schema.SchemaParser.extendSchema',
                 'ZConfig.schema.BaseParser.start_import', 'ZConfig.schema.BaseParser.loadComponent',
                 'ZConfig.loader.SchemaLoader.schemaComponentSource', 'ZConfig.schema.', 'ZConfig.info.',
                 'ZConfig.matcher.', 'ZConfig.loader.')
    stubs = ('BaseLoader.openResource -> in-memory resources for the base schemas (package: resources real)',)
    assumptions = (
        'four composed/expanded schema pairs (extends chain of length 3 with key-type override and wildcard '
        'defaults; prefixes nested to depth 3, absolute and relative; schema extends of 2 bases one of which '
        'extends a third, in sub- and parent directories; a diamond of 3 generated component packages '
        'imported repeatedly); the expansions are written by hand in vf/harness/c11.py',
        'a derived type that overrides the key type keeps the inherited key NAMES as normalised by the base '
        'key type; pairs avoid key names whose normal form differs between the two key types',
        'texts: the enumerated skeletons with symbolic 2-character tokens',
    )
    expected_classes = ('ok', 'reject')
    nontrivial_rule = 'every completed path'
    step_limit = 80000
    slice_s = 8.0

    @property
    def bounds(self):
        return {'quick': {'pairs': len(PAIRS), 'texts': len(TEXTS_Q) + len(gen.shapes(3))}, 'thorough': {'pairs': len(PAIRS), 'texts': len(TEXTS_T) + len(gen.shapes(4))}}

    def budget(self, tier):
        return 240 if tier == 'quick' else 1200

    def units(self, tier):
        from .. import corpus
        us = []
        for pid in PAIRS:
            if pid.startswith('BAD'):
                us.append({'pair': pid, 'files': [['main.conf', [[W('k'), ' ', V('v')]]]], 'must_reach': 'schema-failed'})
                continue
            for t in (TEXTS_Q if tier == 'quick' else TEXTS_T):
                us.append({'pair': pid, 'files': [['main.conf', t]]})
            # the C01 corpus: every balanced shape up to 3 (thorough 4) lines, all tokens symbolic
            shapes = gen.shapes(3) if tier == 'quick' else gen.shapes(4)
            if tier == 'quick' and pid == 'REC':
                # what distinguishes this pair is a section INSIDE a section of the derived types
                shapes = [sh for sh in shapes if len(sh) <= 2 or sh[0] in 'uo']
            for sh in shapes:
                lines, _ = corpus.template(sh)
                us.append({'pair': pid, 'shape': sh, 'files': [['main.conf', lines]]})
        return us

    def inputs(self, eng, unit):
        return self.text_inputs(eng, unit)

    def _load(self, xml, bases, files, concrete):
        import ZConfig
        ensure_packages()
        store = {P.BASE + n: ls for n, ls in files}
        for n, x in bases.items():
            store[P.BASE + 'schemas/' + n] = x.split('\n')
        store[P.BASE + 'schemas/main.xml'] = xml.split('\n')
        dtsupport_reset()
        with common.env_scope(concrete, {}), P.mem_resources(store):
            try:
                schema = ZConfig.loadSchema(P.BASE + 'schemas/main.xml')
            except Exception as e:
                return ('schema-failed', type(e).__name__, str(e)[:80])
            f = common.make_file(files[0][1])
            try:
                cfg, _ = ZConfig.loadConfigFile(schema, f, P.BASE + files[0][0])
            except ZConfig.ConfigurationError:
                return ('reject',)
            except Exception as e:
                return ('crash', type(e).__name__)
        return ('ok', P.walk(cfg))

    def observe(self, unit, inp):
        composed, expanded, bases = PAIRS[unit['pair']]
        return self._load(composed, bases, self.text_files(unit, inp), common.all_concrete(inp))

    def expect(self, unit, inp, real):
        composed, expanded, bases = PAIRS[unit['pair']]
        return self._load(expanded, {}, self.text_files(unit, inp), common.all_concrete(inp))

    def agree(self, unit, real, exp):
        if unit['pair'].startswith('BAD'):
            # refused when the schema is loaded, both spellings, with a schema error
            return z3.BoolVal(real[0] == 'schema-failed' and exp[0] == 'schema-failed'
                              and real[1] == exp[1] == 'SchemaError')
        return deep_eq(real, exp)

    def classify(self, unit, real):
        return real[0]


def dtsupport_reset():
    from .. import dtsupport
    dtsupport.COUNTER.update(n=0, fail_at=None, sn=0, sfail_at=None)


HARNESS = C11()

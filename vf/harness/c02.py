"""C02 - an accepted configuration yields exactly the typed value tree the schema defines.

Same pipeline and token model as C01; the assertion is recursive equality of the value tree
(attributes in declaration order, converted values / defaults, [] vs None, wildcard maps,
section type and lower-cased name, section datatype applied) with the tree computed by the
reference oracle from the schema description; conversions are decided symbolically
(e.g. int(token) is a z3 term on both sides)."""
import z3

from ..base import Harness
from ..core import deep_eq
from .. import gen
from ..oracles import linegrammar as G, conformance as CF
from . import common, pipeline as P
from .c01 import FAMILY, VIEWS, XML


class C02(Harness):
    prop = 'C02'
    domain = 'D'
    title = ('bounded symbolic execution of the load pipeline; on every accepting path the value '
             'tree read through getSectionAttributes()/getSectionType()/getSectionName() is compared '
             'by z3 with the tree an independent oracle derives from the schema description')
    functions = ('ZConfig.matcher.', 'ZConfig.info.', 'ZConfig.schema.BaseParser.get_name_info',
                 'ZConfig.datatypes.', 'ZConfig.cfgparser.', 'ZConfig.loader.')
    assumptions = (
        'schemas: the generated family (vf/gen.py); datatypes with a reference conversion: string, '
        'integer, boolean, port-number, byte-size, time-interval, identifier, basic-key, string-list, '
        'inet-address, null, and a wrapping section datatype; float is outside (C float parsing)',
        'texts: balanced line shapes up to the bound, symbolic tokens of length 2 (values 1-3)',
        'where several slots fit a section the documented search order (schema order, a fixed name '
        'deciding first) determines the slot',
    )
    expected_classes = ('ok', 'reject')
    nontrivial_rule = 'the path is an accepting one (a value tree was compared)'
    step_limit = 60000
    slice_s = 8.0

    @property
    def bounds(self):
        return {'quick': {'schemas': ['S1', 'S2', 'S3', 'S4', 'S5', 'S7', 'S9', 'S13', 'S14', 'S15'], 'max_lines': 3, 'value_len': '1-3'},
                'thorough': {'schemas': gen.THOROUGH, 'max_lines': 4, 'value_len': '1-3'}}

    def budget(self, tier):
        return 240 if tier == 'quick' else 1500

    def units(self, tier):
        us = []
        if tier == 'quick':
            schemas = ['S1', 'S2', 'S3', 'S4', 'S5', 'S7', 'S9', 'S13', 'S14', 'S15']
            shapes = [s for s in gen.shapes(3) if 'e' not in s or len(s) <= 2]
            shapes += ['ukkc', 'okkc', 'uufcc'[:0] or 'uucc', 'ukuc'[:0] or 'kukc', 'ukck']
        else:
            schemas = gen.THOROUGH
            shapes = gen.shapes(4) + ['uukcc', 'oukcc', 'ukkkc', 'kukck']
        for sid in schemas:
            for sh in sorted(set(shapes)):
                us.append({'schema': sid, 'shape': sh, 'nlen': 2, 'vlen': 1})
            for sh in ('k', 'kk', 'ukc'):
                us.append({'schema': sid, 'shape': sh, 'nlen': 2, 'vlen': 2})
            if sid == 'S7':
                for sh in ('k', 'ukc'):
                    us.append({'schema': sid, 'shape': sh, 'nlen': 2, 'vlen': 3})
        # the schema read from a nameless file object by a SchemaLoader that has read another nameless
        # document before (each document is its own schema)
        for sid in ('S2', 'S4', 'S15'):
            for sh in ('k', 'ukc'):
                us.append({'schema': sid, 'shape': sh, 'nlen': 2, 'vlen': 1, 'loader': 'reused'})
        return us

    def _run(self, unit, lines):
        if unit.get('loader') != 'reused':
            return P.run_load(XML[unit['schema']], lines)
        import io
        import ZConfig
        import ZConfig.loader
        sl = ZConfig.loader.SchemaLoader()
        try:
            sl.loadFile(io.StringIO(XML['S6']))
            schema = sl.loadFile(io.StringIO(XML[unit['schema']]))
        except Exception as e:
            return ('crash', 'schema:' + type(e).__name__, e)
        try:
            cfg, handler = ZConfig.loadConfigFile(schema, common.make_file(lines), P.URL)
        except ZConfig.ConfigurationError as e:
            return ('reject', type(e).__name__, e)
        except Exception as e:
            return ('crash', type(e).__name__, e)
        return ('ok', cfg, handler)

    def inputs(self, eng, unit):
        lines, holes = gen.skeleton(unit['shape'])
        return P.make_holes(self, eng, holes, unit['nlen'], unit['vlen'])

    def lines(self, unit, inp):
        lines, _ = gen.skeleton(unit['shape'])
        return P.fill(lines, inp)

    def observe(self, unit, inp):
        r = self._run(unit, self.lines(unit, inp))
        if r[0] == 'ok':
            # every slot holds its own value: no list / dict object may sit at two places of the tree
            # (a converted default handed to two sections would be shared by them)
            shared = _shared_containers(r[1])
            if shared:
                return ('ok', P.walk(r[1]), ('SHARED-MUTABLE-VALUE', shared))
            return ('ok', P.walk(r[1]))
        if r[0] == 'reject':
            return ('reject',)
        return ('crash', r[1])

    def expect(self, unit, inp, real):
        g = G.parse(self.lines(unit, inp), 'record')
        if g[0] != 'ok':
            return ('reject',)
        return CF.evaluate(VIEWS[unit['schema']], g[1])

    def agree(self, unit, real, exp):
        if exp[0] == 'any':
            return z3.BoolVal(real[0] in ('ok', 'reject'))
        return deep_eq(real, exp)

    def classify(self, unit, real):
        return real[0]

    def nontrivial(self, unit, inp, real):
        return real[0] == 'ok'


def _shared_containers(cfg):
    from ZConfig.matcher import SectionValue
    from ..dtsupport import Wrapped
    seen = {}
    dup = []

    def rec(v, path):
        if isinstance(v, Wrapped):
            return rec(v.value, path)
        if isinstance(v, SectionValue):
            for a in v.getSectionAttributes():
                rec(getattr(v, a), path + '.' + a)
        elif isinstance(v, (list, dict)):
            if id(v) in seen:
                dup.append((seen[id(v)], path))
            else:
                seen[id(v)] = path
            for i, x in enumerate(v.values() if isinstance(v, dict) else v):
                rec(x, '%s[%d]' % (path, i))
    rec(cfg, '')
    return dup


HARNESS = C02()

"""C15 - the result of a load does not depend on how the text is laid out.

Metamorphic, real code against real code, same symbolic tokens on both sides: the original
text and a rewritten one (indentation / trailing whitespace made of *symbolic whitespace
characters*, inserted blank and comment lines with symbolic content, letter case of section
types, section names, define names and their references and - under a case-insensitive key
type - keys changed through modelled upper()/lower()/swapcase(), '<t/>' vs '<t></t>',
lines of different keys reordered).  Also texts for the shipped logger and basic-mapping
components."""
import z3

from ..base import Harness
from ..core import deep_eq
from .. import gen
from . import common, pipeline as P
from .c01 import XML
from .c05 import SD_XML

LOGGER_XML = """<schema>
  <import package="ZConfig.components.logger"/>
  <multisection type="logger" name="*" attribute="loggers"/>
  <section type="eventlog" name="*" attribute="eventlog"/>
</schema>
"""
MAPPING_XML = """<schema>
  <import package="ZConfig.components.basic" file="mapping.xml"/>
  <sectiontype name="mapping" extends="ZConfig.basic.mapping"/>
  <section type="mapping" name="*" attribute="map"/>
  <multisection type="mapping" name="+" attribute="maps"/>
</schema>
"""
SCHEMAS = dict(XML)
SCHEMAS['SD'] = SD_XML
SCHEMAS['LOG'] = LOGGER_XML
SCHEMAS['MAP'] = MAPPING_XML


def W(i, n=2):
    return ['w', n, i]


def V(i, n=1):
    return ['v', n, i]


def S(i, n=1):
    return ['s', n, i]


def X(i, n=2):
    return ['x', n, i]


U = lambda i: ['=U', i]      # noqa
L = lambda i: ['=L', i]      # noqa
SW = lambda i: ['=S', i]     # noqa
E = lambda i: ['=', i]       # noqa

# (schema, original lines, rewritten lines)
PAIRS_Q = [
    # cased non-ASCII letters in a section name, in two letter cases
    ('S2', ['<ta z\u00e9r>', ['  ka ', V('v')], '</ta>', '<ta \u03c9x>', '  ka 2', '</ta>'],
     ['<TA Z\u00c9R>', ['ka ', E('v')], '</Ta>', '<ta \u03a9X>', 'ka 2', '</TA>']),
    # indentation and trailing whitespace (symbolic whitespace characters)
    ('S2', ['kt 5', ['<ta ', W('n'), '>'], [W('k'), ' ', V('v')], '</ta>'],
           [[S('a'), 'kt 5', S('b', 2)], [S('c'), '<ta ', E('n'), '>', S('d')],
            [S('e', 2), E('k'), ' ', E('v'), S('f')], ['</ta>', S('g')]]),
    # blank and comment lines
    ('S2', [['<ta ', W('n'), '>'], [W('k'), ' ', V('v')], '</ta>', 'zz top'],
           [['#', X('c1')], ['<ta ', E('n'), '>'], '', [E('k'), ' ', E('v')], [S('a'), '#', X('c2', 1)],
            '</ta>', [S('b', 2)], 'zz top']),
    # case of section type, name and closer
    ('S2', [['<', W('t'), ' ', W('n'), '>'], '  ka 1', ['</', E('t'), '>']],
           [['<', SW('t'), ' ', U('n'), '>'], '  ka 1', ['</', U('t'), '>']]),
    # case of keys under basic-key
    ('S2', ['<ta n1>', [W('k'), ' ', V('v')], '</ta>', [W('k2'), ' ', V('v2')]],
           ['<ta n1>', [SW('k'), ' ', E('v')], '</ta>', [U('k2'), ' ', E('v2')]]),
    # empty section forms
    ('S2', [['<', W('t'), ' ', W('n'), '/>'], 'kt 1'],
           [['<', E('t'), ' ', E('n'), '>'], ['</', E('t'), '>'], 'kt 1']),
    ('S3', [['<', W('t'), '/>'], ['<', W('t2'), ' ', W('n'), '/>']],
           [['<', E('t'), '>'], ['</', E('t'), '>'], ['<', E('t2'), ' ', E('n'), '>'], ['</', E('t2'), ' >']]),
    # reordering lines of different keys within one section
    ('S2', ['<ta n1>', ['ka ', V('a')], [W('k'), ' ', V('b')], ['kb ', V('c')], '</ta>', 'kt 1', 'zz 2'],
           ['zz 2', '<ta n1>', [E('k'), ' ', E('b')], ['kb ', E('c')], ['ka ', E('a')], '</ta>', 'kt 1']),
    # defines: case of names and references
    ('SD', [['%define ', ['n', 2, 'd'], ' ', ['d', 2, 'x']], ['k1 $', E('d')], ['k2 ${', E('d'), '}']],
           [['%define ', SW('d'), ' ', E('x')], ['k1 $', U('d')], [S('a'), 'k2 ${', L('d'), '}']]),
    # a name defined twice (conflicting and identical values), the later spelling in another case
    ('SD', [['%define ', ['n', 2, 'd'], ' x'], ['%define ', E('d'), ' ', ['d', 1, 'y']], ['k1 $', E('d')]],
           [['%define ', E('d'), ' x'], ['%define ', SW('d'), ' ', E('y')], ['k1 $', U('d')]]),
    # identifier key type is case-sensitive: only layout changes
    ('S5', [[W('k'), ' ', V('v')], 'Kc 1'], [[S('a'), E('k'), S('b'), E('v'), S('c')], '', 'Kc 1']),
    # shipped components
    ('MAP', ['<mapping>', [W('k'), ' ', V('v')], ['KX ', V('w')], '</mapping>'],
            [['<MAPPING', S('a'), '>'], ['KX ', E('w')], [S('b'), SW('k'), ' ', E('v')], '</Mapping>']),
    ('LOG', ['<logger>', ['level ', W('l', 4)], '<logfile>', 'path STDOUT', '</logfile>', '</logger>'],
            ['<LOGGER>', '<LogFile>', [S('a'), 'PATH STDOUT'], '</logfile>', ['Level ', SW('l')], '</logger>']),
]
PAIRS_T = PAIRS_Q + [
    ('S4', ['<ta>', '<tb>', ['<tc ', W('n'), '/>'], [W('k'), ' ', V('v')], '</tb>', 'ka 1', '</ta>'],
           [['<TA', S('a'), '>'], 'ka 1', [S('b', 2), '<tB>'], [E('k'), ' ', E('v')], ['<tc ', U('n'), '>'],
            ['#', X('c')], '</TC>', '</tb>', '</ta>']),
    ('S7', [['ka ', V('a'), ' ', V('b')], ['kd ', V('h'), ':80'], '<ta>', ['kb ', V('n'), 'kb'], '</ta>'],
           ['<ta>', [S('s'), 'KB ', E('n'), 'kb', S('t')], '</ta>', ['KA ', E('a'), ' ', E('b')], ['Kd ', E('h'), ':80']]),
    ('S2', [['<ta ', W('n'), '>'], 'ka 1', '</ta>', ['<ta ', W('m'), '>'], 'ka 2', '</ta>'],
           [['<ta ', U('n'), '>'], 'ka 1', '</ta>', '', ['<TA ', SW('m'), ' >'], 'ka 2', '</ta>']),
    ('SD', [['%define ', ['n', 1, 'a'], ' ', ['d', 1, 'x']], ['%define ', ['n', 1, 'b'], ' $', E('a')], ['k3 $', E('b')], ['k3 $', E('a')]],
           [['%define ', U('a'), '  ', E('x')], '', ['%define ', E('b'), ' ${', U('a'), '}'], ['k3 $', U('b')], ['K3 $', E('a')]]),
    ('LOG', ['<eventlog>', ['level ', W('l', 3)], '</eventlog>', '<logger>', ['name ', W('nm', 2)], 'propagate no', '</logger>'],
            ['<logger>', 'propagate NO', ['name ', E('nm')], '</logger>', '<EventLog>', ['LEVEL ', U('l')], '</eventlog>']),
    ('MAP', [['<mapping ', W('n'), '>'], [W('k'), ' ', V('v')], '</mapping>', ['<mapping ', W('m'), '/>']],
            [['<mapping ', U('n'), '>'], [U('k'), ' ', E('v')], '</mapping>', ['<mapping ', SW('m'), '>'], '</mapping>']),
]


CASE_INSENSITIVE_KEYS = ('S1', 'S2', 'S3', 'S4', 'S6', 'S7', 'S8', 'S9', 'S10', 'S12', 'S14')


def generated(tier):
    """the C01 corpus (every balanced shape up to the line bound, all tokens symbolic) x each
    mechanical rewrite applied at every applicable position, and all of them composed"""
    from .. import corpus as C
    if tier == 'quick':
        # S14: a '+' key next to optionally named section slots without required keys (a key text may equal a
        # section name)
        schemas, shapes = ['S2', 'S3', 'S7', 'S14'], gen.shapes(3)
    else:
        schemas, shapes = gen.THOROUGH, gen.shapes(3) + [s for s in gen.shapes(4) if len(s) == 4][::4]
    us = []
    for sid in schemas:
        keys = sid in CASE_INSENSITIVE_KEYS
        for sh in shapes:
            lines, info = C.template(sh)
            variants = [('ws', C.rw_whitespace(lines, info), []),
                        ('blank', C.rw_blank(lines, info), []),
                        ('case', C.rw_case(lines, info, keys), [])]
            e = C.rw_empty(lines, info)
            if e is not None:
                variants.append(('empty', e, []))
            r, distinct = C.rw_reorder(lines, info)
            if r is not None:
                variants.append(('reorder', r, distinct))
            if tier != 'quick' or len(sh) <= 2:
                c, d2 = C.compose(lines, info, keys)
                variants.append(('all', c, d2))
            if len(sh) <= 2 or tier != 'quick':
                # the rewritten text does not end in a newline; its last line carries ONE trailing blank
                last = C.refs(lines[-1])
                nonl = [C.refs(l) for l in lines[:-1]] + [last + [['s', 1, 'nl1']]]
                variants.append(('nonl', nonl, []))
            for kind, rew, distinct in variants:
                if tier == 'quick' and kind in ('ws', 'blank') and len(sh) == 3 and sid != 'S2':
                    continue
                if tier == 'quick' and sid == 'S14' and (kind not in ('reorder', 'empty', 'case') or 'k' not in sh
                                                         or not any(c in sh for c in 'ouef')):
                    continue
                us.append({'schema': sid, 'shape': sh, 'rewrite': kind, 'files': [['main.conf', lines]],
                           'files2': [['main.conf', rew]], 'distinct': distinct})
    return us


DEEP_XML = """<schema>
 <abstracttype name="an"/>
 <sectiontype name="tr" implements="an"><multisection type="an" name="*" attribute="inner"/><key name="kr"/></sectiontype>
 <multisection type="an" name="*" attribute="top"/>
</schema>
"""


class C15(P.TextMixin, Harness):
    prop = 'C15'
    domain = 'D'
    title = ('metamorphic bounded symbolic execution: the real loader on a text and on a layout-'
             'rewritten text (symbolic whitespace, symbolic comments, modelled case changes, empty '
             'section forms, key reordering) with the same symbolic tokens; equal value trees or both '
             'rejected')
    functions = ('ZConfig.cfgparser.', 'ZConfig.matcher.', 'ZConfig.info.', 'ZConfig.datatypes.',
                 'ZConfig.loader.')
    assumptions = (
        'the enumerated (original, rewritten) pairs of vf/harness/c15.py; rewrites are composed by hand '
        '(1-5 per pair), not sampled at random positions',
        'whitespace characters: space, tab, U+00A0, U+2003, U+3000, form feed, U+001C; case changes over '
        'domain D (characters whose case mapping changes length or depends on context excluded)',
        'logger sections are compared through the factory objects the load returns (no handler is '
        'created)',
    )
    expected_classes = ('ok', 'reject')
    nontrivial_rule = 'every completed path'
    step_limit = 80000
    slice_s = 8.0

    @property
    def bounds(self):
        return {t: {'hand_written_pairs': len(PAIRS_Q if t == 'quick' else PAIRS_T),
                    'generated_pairs': len(generated(t)),
                    'generated_from': 'C01 shapes (<= 3 lines; thorough: plus a quarter of the 4-line shapes) x '
                                      'rewrites {whitespace, blank/comment lines, case, empty-section form, '
                                      'key reordering, all composed}'}
                for t in ('quick', 'thorough')}

    def budget(self, tier):
        return 240 if tier == 'quick' else 1500

    def units(self, tier):
        us = [{'schema': s, 'files': [['main.conf', a]], 'files2': [['main.conf', b]]}
              for s, a, b in (PAIRS_Q if tier == 'quick' else PAIRS_T)] + generated(tier)
        # deep nesting (a recursive section type): the nesting depth is a z3 integer, the innermost empty
        # section is written '<tr/>' in one text and '<tr>' '</tr>' in the other; likewise a key line moved
        # from the front of the innermost section to its end
        for form in ('empty', 'indent'):
            us.append({'deep': form, 'max_depth': 24 if tier == 'quick' else 48, 'files': [], 'files2': []})
        return us

    def _deep(self, unit, inp, rewritten):
        d = inp['depth']
        n = 1
        while not (d == n):          # forks once per depth
            n += 1
        lines = []
        for i in range(n):
            lines.append('  ' * i + '<tr n%d>' % i)
            lines.append('  ' * i + '  kr %d' % i)
        pad = '  ' * n
        if unit['deep'] == 'empty':
            lines += ([pad + '<tr>', pad + '</tr>'] if rewritten else [pad + '<tr/>'])
        else:
            lines += ([pad + '<tr x>', '\t  kr ' + inp['val'] + '   ', '', '# c', pad + '</tr>'] if rewritten
                      else ['<tr x>', 'kr ' + inp['val'], '</tr>'])
        for i in reversed(range(n)):
            lines.append('  ' * i + '</tr>')
        return self._out(P.run_load(DEEP_XML, lines, url=P.MAIN))

    def inputs(self, eng, unit):
        if 'deep' in unit:
            d = eng.fresh_int('depth')
            eng.assume(z3.And(d >= 1, d <= unit['max_depth']))
            from ..core import SymInt
            return {'depth': SymInt(d), 'val': self.sym_str(eng, 'val', 1, P.value_pred)}
        inp = self.text_inputs(eng, unit)
        for k, v in self.text_inputs(eng, unit, 'files2').items():
            if k not in inp:
                inp[k] = v
        # reordering is only claimed for lines of *different* keys
        for a, b in unit.get('distinct', ()):
            eng.assume(z3.Not(inp['h_' + a].lower()._eq_expr(inp['h_' + b].lower())))
        return inp

    def _out(self, r):
        if r[0] == 'ok':
            return ('ok', P.walk(r[1]))
        if r[0] == 'crash':
            return ('crash', r[1])
        return ('reject',)

    def observe(self, unit, inp):
        if 'deep' in unit:
            return self._deep(unit, inp, True)
        files = self.text_files(unit, inp, 'files2')
        return self._out(self.real_load(SCHEMAS[unit['schema']], files, common.all_concrete(inp),
                                        final_newline=unit.get('rewrite') != 'nonl'))

    def expect(self, unit, inp, real):
        if 'deep' in unit:
            return self._deep(unit, inp, False)
        files = self.text_files(unit, inp)
        return self._out(self.real_load(SCHEMAS[unit['schema']], files, common.all_concrete(inp)))

    def classify(self, unit, real):
        return real[0]


HARNESS = C15()

"""C18 (reduced scope) - path / URL helpers.

Solver part: url.urlnormalize, BaseLoader.isPath, the wrapper logic of url.urljoin,
BaseLoader.normalizeURL for URL-shaped input (fragment rejection, file: normalisation) and
the name filter of loader._url_from_file, for all strings up to the length bound over
domain D.  E2: language of BaseLoader._pathsep_rx.
Outside the claim: agreement of the four entry points on real directory trees, working
directories and file names (os / posixpath / open / urlopen cannot take symbolic values)."""
import z3

from ..base import Harness
from . import pipeline as P
from ..core import deep_eq
from ..symstr import char_is, is_ascii_alpha, is_ascii_digit


def ref_urlnormalize(url):
    low = url.lower()
    if len(low) >= 6 and low[:6] == 'file:/' and not (len(low) >= 8 and low[:8] == 'file:///'):
        return 'file://' + url[5:]
    return url


def ref_urlnormalize_cs(url):
    """the case-sensitive variant used on the result of urljoin"""
    if len(url) >= 6 and url[:6] == 'file:/' and not (len(url) >= 8 and url[:8] == 'file:///'):
        return 'file://' + url[5:]
    return url


def ref_ispath(s):
    n = len(s)
    colon = -1
    for i in range(n):
        if char_is(s[i], ':'):
            colon = i
            break
    if colon < 0:
        return True
    if colon == 0 or not is_ascii_alpha(s[0]):
        return True
    for i in range(1, colon):
        ch = s[i]
        if not (is_ascii_alpha(ch) or is_ascii_digit(ch) or char_is(ch, '-', '+', '.')):
            return True
    return colon == 1            # a one-letter scheme is a drive letter


class FakeFile:
    def __init__(self, name):
        self.name = name


def ref_pred(c, i):
    """characters of a path-only reference: two letters, '.', '/', '#'"""
    return z3.Or(c == 97, c == 98, c == 46, c == 47, c == 35)


# path below http://m/ -> content
INCL_STORE = {'d/a': ['kc da'], 'd/b': ['kc db'], 'd/aa': ['kc daa'], 'd/s/a': ['kc dsa'], 'd/s/b': ['kc dsb'],
              'd/a/a': ['kc daa2'], 'a': ['kc ra'], 'b/a': ['kc rba'], 'd/s/s/a': ['kc dssa']}


def _sch(body, **attrs):
    return '<schema%s>%s</schema>' % (''.join(' %s="%s"' % kv for kv in attrs.items()), body)


_K = lambda n: '<key name="%s"/>' % n          # noqa
_T = lambda n: '<sectiontype name="%s"/>' % n  # noqa
# (top schema, {path below http://m/: xml}, [expected key names, expected type names])
SCHEMA_LAYOUTS = [
    ('a/main.xml', {'a/main.xml': _sch(_K('kt'), extends='sub/mid.xml'),
                    'a/sub/mid.xml': _sch(_K('km'), extends='root.xml'),
                    'a/sub/root.xml': _sch(_K('kr')),
                    'a/root.xml': _sch(_K('kdecoy'))}, [['km', 'kr', 'kt'], []]),
    ('a/main.xml', {'a/main.xml': _sch(_K('kt'), extends='../b/mid.xml'),
                    'b/mid.xml': _sch(_K('km'), extends='c/root.xml ../b/r2.xml'),
                    'b/c/root.xml': _sch(_K('kr')), 'b/r2.xml': _sch(_K('k2')),
                    'a/c/root.xml': _sch(_K('kdecoy')), 'b/../b/r2.xml': _sch(_K('kdecoy2'))},
     [['k2', 'km', 'kr', 'kt'], []]),
    ('a/main.xml', {'a/main.xml': _sch('<import src="sub/types.xml"/>' + _K('kt')),
                    'a/sub/types.xml': _sch('<import src="deep/t2.xml"/>' + _T('ta')),
                    'a/sub/deep/t2.xml': _sch(_T('tb')),
                    'a/deep/t2.xml': _sch(_T('tdecoy'))}, [['kt'], ['ta', 'tb']]),
    ('main.xml', {'main.xml': _sch(_K('kt'), extends='x/y/mid.xml'),
                  'x/y/mid.xml': _sch('<import src="../t.xml"/>' + _K('km'), extends='../../r.xml'),
                  'x/t.xml': _sch(_T('ta')), 'r.xml': _sch(_K('kr')),
                  't.xml': _sch(_T('tdecoy')), 'x/y/r.xml': _sch(_K('kdecoy'))},
     [['km', 'kr', 'kt'], ['ta']]),
    # two resources whose URLs differ in letter case only are two resources
    ('a/main.xml', {'a/main.xml': _sch('<import src="lib/t.xml"/><import src="Lib/t.xml"/>' + _K('kt'), extends='B.xml b.xml'),
                    'a/lib/t.xml': _sch(_T('ta')), 'a/Lib/t.xml': _sch(_T('tb')),
                    'a/b.xml': _sch(_K('kb')), 'a/B.xml': _sch(_K('k2'))}, [['k2', 'kb', 'kt'], ['ta', 'tb']]),
    # a fragment identifier on ANY of several bases (also not the last one) is refused
    ('a/main.xml', {'a/main.xml': _sch(_K('kt'), extends='b1.xml#types b2.xml'),
                    'a/b1.xml': _sch(_K('k1')), 'a/b2.xml': _sch(_K('k2'))}, 'REJECT'),
    ('a/main.xml', {'a/main.xml': _sch(_K('kt'), extends='b1.xml b2.xml#x b3.xml'),
                    'a/b1.xml': _sch(_K('k1')), 'a/b2.xml': _sch(_K('k2')), 'a/b3.xml': _sch(_K('k3'))}, 'REJECT'),
    ('a/main.xml', {'a/main.xml': _sch(_K('kt'), extends='b1.xml b2.xml'),
                    'a/b1.xml': _sch(_K('k1')), 'a/b2.xml': _sch('<import src="t.xml#frag"/>' + _K('k2')),
                    'a/t.xml': _sch(_T('ta'))}, 'REJECT'),
    ('a/main.xml', {'a/main.xml': _sch('<import src="types.xml"/>' + _K('kt'), extends='../b/base.xml'),
                    'a/types.xml': _sch(_T('ta')),
                    'b/base.xml': _sch('<import src="types.xml"/>' + _K('kb')),
                    'b/types.xml': _sch(_T('tb'))}, [['kb', 'kt'], ['ta', 'tb']]),
]


# ---- a real tree (written to a temp dir); directory and file names use URL-neutral specials
_D1 = 'dir a [1]~+&;\u00e9'
_D2 = 'other.d'
_SCH = '<schema extends="base~+&amp;;x.xml"><import src="sub s/t [2].xml"/><multikey name="kc"/><key name="k1"/></schema>'
TREE_FILES = {
    _D1 + '/schema.xml': _SCH,
    _D1 + '/base~+&;x.xml': '<schema><key name="kbase"/></schema>',
    _D1 + '/sub s/t [2].xml': '<schema><sectiontype name="tt"/></schema>',
    _D1 + '/main.conf': 'kc d1-main\n%include sub s/inc [3].conf\n%include ../shared+&;.conf\n',
    _D1 + '/sub s/inc [3].conf': 'kc d1-inc\n%include ../~x.conf\n',
    _D1 + '/~x.conf': 'kc d1-tilde\n',
    _D1 + '/~/t.conf': 'kc d1-tildedir\n',
    'shared+&;.conf': 'kc root-shared\n',
    # a file name containing U+2028 (a line boundary for str.splitlines, not for the reader) named in an %include
    _D1 + '/ls.conf': 'kc d1-ls\n%include part\u2028two.conf\nkc after\n',
    _D1 + '/part\u2028two.conf': 'kc d1-part\n',
    # references written with percent escapes (the only way to name a file with a blank in 'extends')
    _D1 + '/pct.conf': 'kc d1-pct\n%include sub%20s/inc%20[3].conf\n%include ../shared%2B&;.conf\n',
    _D1 + '/pct.xml': '<schema extends="base~+&amp;;x.xml sub%20s/b%20x.xml"><import src="sub%20s/t%20[2].xml"/><multikey name="kc"/></schema>',
    _D1 + '/sub s/b x.xml': '<schema><key name="kblank"/></schema>',
    # a second directory in which the SAME relative strings name different files
    _D2 + '/schema.xml': '<schema><multikey name="kc"/><key name="k2"/></schema>',
    _D2 + '/main.conf': 'kc d2-main\n%include sub s/inc [3].conf\n',
    _D2 + '/sub s/inc [3].conf': 'kc d2-inc\n',
    _D2 + '/~/t.conf': 'kc d2-tildedir\n',
}
_K1 = ['k1', 'kbase', 'kc']
_M1 = ['d1-main', 'd1-inc', 'd1-tilde', 'root-shared']
_M2 = ['d2-main', 'd2-inc']
# (name, [(how, cwd, target[, literal relative string])], expected observations)
TREE_CASES = [
    ('four-ways', [('abs', '.', _D1 + '/schema.xml'), ('abs', '.', _D1 + '/main.conf'),
                   ('rel', '.', _D1 + '/main.conf'), ('rel', _D1, _D1 + '/main.conf'),
                   ('rel', _D2, _D1 + '/main.conf'), ('url', _D2, _D1 + '/main.conf'),
                   ('fileabs', _D2, _D1 + '/main.conf'), ('filerel', _D1, _D1 + '/main.conf'),
                   ('filerel', _D2, _D1 + '/main.conf')],
     [_K1] + [_M1] * 8),
    ('schema-four-ways', [('rel', _D1, _D1 + '/schema.xml'), ('url', '.', _D1 + '/schema.xml'),
                          ('fileabs', _D2, _D1 + '/schema.xml'), ('filerel', _D1 + '/sub s', _D1 + '/schema.xml'),
                          ('rel', '.', _D1 + '/schema.xml')],
     [_K1] * 5),
    # the identical relative string used again after a chdir names another file
    ('chdir-same-string', [('rel', _D1, _D1 + '/schema.xml', 'schema.xml'), ('rel', _D1, _D1 + '/main.conf', 'main.conf'),
                           ('rel', _D2, _D2 + '/schema.xml', 'schema.xml'), ('rel', _D2, _D2 + '/main.conf', 'main.conf'),
                           ('filerel', _D1, _D1 + '/schema.xml', 'schema.xml'), ('filerel', _D1, _D1 + '/main.conf', 'main.conf'),
                           ('filerel', _D2, _D2 + '/schema.xml', 'schema.xml'), ('filerel', _D2, _D2 + '/main.conf', 'main.conf'),
                           ('rel', _D1, _D1 + '/schema.xml', 'schema.xml'), ('rel', _D1, _D1 + '/main.conf', 'main.conf')],
     [_K1, _M1, ['k2', 'kc'], _M2, _K1, _M1, ['k2', 'kc'], _M2, _K1, _M1]),
    ('percent-escaped', [('abs', '.', _D1 + '/pct.xml'), ('abs', '.', _D1 + '/pct.conf'), ('rel', _D2, _D1 + '/pct.conf'),
                         ('url', '.', _D1 + '/pct.conf'), ('filerel', _D1, _D1 + '/pct.conf'),
                         ('url', _D2, _D1 + '/pct.xml'), ('filerel', _D1 + '/sub s', _D1 + '/pct.xml')],
     [['kbase', 'kblank', 'kc'], ['d1-pct', 'd1-inc', 'd1-tilde', 'root-shared']] + [['d1-pct', 'd1-inc', 'd1-tilde', 'root-shared']] * 3
     + [['kbase', 'kblank', 'kc']] * 2),
    ('line-separator-in-a-name', [('abs', '.', _D2 + '/schema.xml'), ('abs', '.', _D1 + '/ls.conf'), ('rel', _D2, _D1 + '/ls.conf'),
                                  ('url', '.', _D1 + '/ls.conf'), ('fileabs', _D2, _D1 + '/ls.conf'), ('filerel', _D1, _D1 + '/ls.conf')],
     [['k2', 'kc']] + [['d1-ls', 'd1-part', 'after']] * 5),
    # a relative path whose first component is '~'
    ('tilde-dir', [('abs', '.', _D2 + '/schema.xml'), ('rel', _D1, _D1 + '/~/t.conf', '~/t.conf'),
                   ('rel', _D2, _D2 + '/~/t.conf', '~/t.conf'), ('filerel', _D1, _D1 + '/~/t.conf', '~/t.conf'),
                   ('rel', _D1, _D1 + '/~x.conf', '~x.conf')],
     [['k2', 'kc'], ['d1-tildedir'], ['d2-tildedir'], ['d1-tildedir'], ['d1-tilde']]),
]


class C18(Harness):
    prop = 'C18'
    domain = 'D'
    title = ('bounded symbolic execution of url.urlnormalize, url.urljoin (wrapper), BaseLoader.isPath, '
             'BaseLoader.normalizeURL (URL-shaped input) and loader._url_from_file (name filter) on fully '
             'symbolic strings against reference rules; E2 language equality for _pathsep_rx')
    functions = ('ZConfig.url.urlnormalize', 'ZConfig.url.urljoin', 'ZConfig.url.urldefrag',
                 'ZConfig.loader.BaseLoader.isPath', 'ZConfig.loader.BaseLoader.normalizeURL',
                 'ZConfig.loader._url_from_file', 'ZConfig.url.', 'ZConfig.loader.')
    stubs = ('urllib.parse.urldefrag(s) for s without "#" -> (s, "") and with a non-empty fragment -> '
             '(text before the first "#", fragment): the two cases normalizeURL distinguishes',
             'os.path.abspath -> identity, pathname2url -> an opaque quoted path without "#" (only "a file: URL is produced" is observed)',
             'urllib urljoin is run natively with an empty base, where it returns its argument')
    assumptions = (
        'REDUCED SCOPE: the agreement of path / relative path / file: URL / open-file entry points on real '
        'directory layouts, working directories and file names is NOT decided by the solver (C-level os '
        'and urllib I/O cannot take symbolic values); a CONCRETE supplement runs 6 scenario sequences on one '
        'real temp tree (names with space [ ] ~ + & ; and a non-ASCII letter, 3 working directories, the same '
        'relative string re-used after chdir) - enumeration, not a bounded-exhaustive claim',
        'strings ending in "#" are excluded from normalizeURL (empty fragment: urlunparse re-assembly)',
        'characters over domain D; lower() of characters outside D is excluded',
    )
    expected_classes = ('ok', 'reject')
    nontrivial_rule = 'the witness string is non-empty'
    step_limit = 40000

    @property
    def bounds(self):
        return {'quick': {'max_len': 7, 'normalizeURL_max_len': 7, 'urlnormalize_max_len': 9},
                'thorough': {'max_len': 8, 'normalizeURL_max_len': 8, 'urlnormalize_max_len': 10}}

    def budget(self, tier):
        return 170 if tier == 'quick' else 900

    def units(self, tier):
        b = self.bounds[tier]
        us = []
        for L in range(b['urlnormalize_max_len'], -1, -1):
            us.append({'fn': 'urlnormalize', 'len': L})
            us.append({'fn': 'urljoin', 'len': L})
        for L in range(b['max_len'], -1, -1):
            us.append({'fn': 'isPath', 'len': L})
            us.append({'fn': 'url_from_file', 'len': L})
        for L in range(b['normalizeURL_max_len'], -1, -1):
            us.append({'fn': 'normalizeURL', 'len': L})
        # longer file: prefixes with a symbolic tail
        for L in range(0, 5):
            us.append({'fn': 'urlnormalize', 'len': L, 'prefix': 'FiLe:/'})
            us.append({'fn': 'urlnormalize', 'len': L, 'prefix': 'file://'})
            us.append({'fn': 'normalizeURL', 'len': L, 'prefix': 'file:/'})
            us.append({'fn': 'normalizeURL', 'len': L, 'prefix': 'http://h/a'})
        # long names: 20-40 concrete characters in front of the symbolic tail
        for pre in ('file://localhost/srv/some dir/conf.d/', 'FILE:/srv/some%20dir/conf.d/site', 'file:///C:/Program Files/App/etc/',
                    'http://host.example.org:8080/a/b/c.conf?x=1', 'C:\\Users\\someone\\etc\\site', 'relative/dir with blank/sub/',
                    'zconfig+ext.v1:', '/abs/path/to/a/rather/deeply/nested/'):
            for L in (1, 2, 3):
                us.append({'fn': 'urlnormalize', 'len': L, 'prefix': pre})
                us.append({'fn': 'isPath', 'len': L, 'prefix': pre})
                us.append({'fn': 'normalizeURL', 'len': L, 'prefix': pre})
                us.append({'fn': 'urljoin', 'len': L, 'prefix': pre})
        return us + self.incl_units(tier) + self.schemaref_units(tier) + self.tree_units(tier)

    # ---- %include references through the loader (instrumented urljoin / urldefrag)
    def incl_units(self, tier):
        us = []
        for where in ('top', 'sub'):
            for pre, n in (('', 2), ('a', 2), ('../', 1), ('', 3)) if tier == 'quick' else \
                    (('', 2), ('a', 2), ('../', 1), ('', 3), ('a', 3), ('s/', 2), ('./', 2), ('', 4)):
                us.append({'fn': 'include', 'where': where, 'prefix': pre, 'len': n})
        return us

    def tree_units(self, tier):
        return [{'fn': 'tree', 'case': i, 'len': 1} for i in range(len(TREE_CASES))]

    def schemaref_units(self, tier):
        return [{'fn': 'schemaref', 'layout': i, 'len': 1} for i in range(len(SCHEMA_LAYOUTS))]

    def preflight(self, tier):
        from .. import e2
        import z3 as Z
        from ZConfig.loader import BaseLoader
        A = Z.Union(Z.Range('a', 'z'), Z.Range('A', 'Z'))
        rest = Z.Union(A, Z.Range('0', '9'), Z.Re('-'), Z.Re('+'), Z.Re('.'))
        ref = Z.Concat(A, Z.Star(rest), Z.Re(':'))
        live = BaseLoader._pathsep_rx.pattern
        r, wit, secs = e2.check_named(live, ref)
        out = {'obligations': 1, 'discharged': 1 if r == 'unsat' else 0,
               'queries': [{'pattern': live, 'result': r, 'seconds': round(secs, 3), 'witness': wit}]}
        if r == 'sat':
            out['error'] = None
        return out

    def inputs(self, eng, unit):
        if unit['fn'] == 'include':
            s = self.sym_str(eng, 's', unit['len'], ref_pred)
            if not unit['prefix'] and unit['len'] >= 2:
                # '//...' names another authority; with an empty one it is the includer itself
                # (a self-include is F7's subject, C07)
                eng.assume(z3.Not(z3.And(s.cs[0] == 47, s.cs[1] == 47)))
            return {'s': s}
        s = self.sym_str(eng, 's', unit['len'])
        if unit['fn'] == 'normalizeURL' and unit['len'] > 0:
            # '#' followed by nothing: urllib re-assembles the URL (urlunparse), not modelled
            eng.assume(s.cs[-1] != ord('#'))
        return {'s': s}

    def observe(self, unit, inp):
        import os.path
        import urllib.parse
        import urllib.request
        import ZConfig
        from ZConfig import url as zurl
        from ZConfig import loader as zl
        from .. import instr
        s = unit.get('prefix', '') + inp['s']
        fn = unit['fn']
        concrete = isinstance(s, str)
        if fn == 'include':
            return self._include(unit, s)
        if fn == 'schemaref':
            return self._schemaref(unit)
        if fn == 'tree':
            return self._tree(unit)

        def defrag(u):
            i = u.find('#')
            if i < 0:
                return (u, '')
            return (u[:i], u[i + 1:])
        if instr.installed():
            instr.FUNC_STUBS[urllib.parse.urldefrag] = defrag
            instr.FUNC_STUBS[os.path.abspath] = lambda p: p
            # pathname2url percent-quotes '#', '?' etc.: the result never carries a fragment
            instr.FUNC_STUBS[urllib.request.pathname2url] = lambda p: '/opaque-quoted-path'
        try:
            if fn == 'urlnormalize':
                return ('ok', zurl.urlnormalize(s))
            if fn == 'urljoin':
                return ('ok', zurl.urljoin('', s))
            if fn == 'isPath':
                return ('ok', bool(zl.SchemaLoader().isPath(s)))
            if fn == 'url_from_file':
                r = zl._url_from_file(FakeFile(s))
                return ('ok', r is not None)
            if fn == 'normalizeURL':
                ld = zl.SchemaLoader()
                try:
                    r = ld.normalizeURL(s)
                except ZConfig.ConfigurationError:
                    return ('ok', 'fragment-error')
                if ref_ispath(s) if not concrete else ld.isPath(s):
                    return ('ok', 'path', r[:7] == 'file://')
                return ('ok', 'url', r)
        except Exception as e:
            return ('crash', type(e).__name__)
        finally:
            instr.FUNC_STUBS.clear()

    def _include(self, unit, arg):
        from .. import instr
        from . import common
        from .c01 import XML
        if instr.installed():
            instr.install_urllib()
        files = dict(INCL_STORE)
        if unit['where'] == 'top':
            main = ['%include ' + arg]
        else:
            main = ['%include s/i.conf']
            files['d/s/i.conf'] = ['%include ' + arg]
        store = {'http://m/' + k: v for k, v in files.items()}
        xml = XML['S1'].replace('required="yes"', '')
        with P.mem_resources(store):
            r = P.run_load(xml, main, url=P.MAIN)
        if r[0] == 'ok':
            return ('ok', P.walk(r[1].kc))
        if r[0] == 'reject':
            return ('reject',)
        return ('crash', r[1])

    def _tree(self, unit):
        """CONCRETE supplement (no symbolic input, one path per case): a real directory tree under a
        temp dir with file names made of URL-neutral special characters; the same resource named by
        absolute path, by path relative to several working directories (also the SAME relative string
        after a chdir to a directory where it names another file), by file: URL and as an open file
        object with an absolute or a relative name; includes / extends / import src inside"""
        import os
        import shutil
        import tempfile
        import urllib.request
        import ZConfig
        name, steps, _ = TREE_CASES[unit['case']]
        root = os.path.realpath(tempfile.mkdtemp(prefix='vfc18_'))
        cwd0 = os.getcwd()
        out = []
        try:
            for rel, text in TREE_FILES.items():
                p = os.path.join(root, rel)
                os.makedirs(os.path.dirname(p), exist_ok=True)
                open(p, 'w', encoding='utf-8').write(text)
            schema = None
            for step in steps:
                how, cwd, target = step[0], step[1], step[2]
                os.chdir(os.path.join(root, cwd))
                ab = os.path.join(root, target)
                relp = os.path.relpath(ab, os.path.join(root, cwd)) if len(step) < 4 else step[3]
                try:
                    if target.endswith('.xml'):
                        if how == 'abs':
                            sch = ZConfig.loadSchema(ab)
                        elif how == 'rel':
                            sch = ZConfig.loadSchema(relp)
                        elif how == 'url':
                            sch = ZConfig.loadSchema('file://' + urllib.request.pathname2url(ab))
                        else:
                            with open(ab if how == 'fileabs' else relp, encoding='utf-8') as f:
                                sch = ZConfig.loadSchemaFile(f)
                        schema = sch
                        out.append(sorted(k for k, i in sch if k))
                    else:
                        if how == 'abs':
                            cfg, _ = ZConfig.loadConfig(schema, ab)
                        elif how == 'rel':
                            cfg, _ = ZConfig.loadConfig(schema, relp)
                        elif how == 'url':
                            cfg, _ = ZConfig.loadConfig(schema, 'file://' + urllib.request.pathname2url(ab))
                        else:
                            with open(ab if how == 'fileabs' else relp, encoding='utf-8') as f:
                                cfg, _ = ZConfig.loadConfigFile(schema, f)
                        out.append(list(cfg.kc))
                except ZConfig.ConfigurationError as e:
                    out.append('reject:' + type(e).__name__)
                except Exception as e:
                    out.append('crash:' + type(e).__name__)
        finally:
            os.chdir(cwd0)
            shutil.rmtree(root, ignore_errors=True)
        return ('ok', out)

    def _schemaref(self, unit):
        """schema 'extends' / '<import src>' references written inside a base or imported schema that
        lives in another directory than the top schema (a decoy with the same relative name sits next
        to the top schema): what the loaded schema contains tells which file was read"""
        import ZConfig
        top, files, _ = SCHEMA_LAYOUTS[unit['layout']]
        store = {'http://m/' + k: v.split('\n') for k, v in files.items()}
        with P.mem_resources(store):
            try:
                sch = ZConfig.loadSchema('http://m/' + top)
            except ZConfig.ConfigurationError as e:
                return ('reject', type(e).__name__)
            except Exception as e:
                return ('crash', type(e).__name__)
        keys = sorted(k for k, info in sch if k)
        types = sorted(t for t in sch.gettypenames())
        return ('ok', [keys, types])

    def _include_expect(self, unit, arg):
        """RFC 3986 section 5.2 for a path-only reference against the includer's URL; a fragment
        is refused; the in-memory tree decides whether the target exists"""
        for i in range(len(arg)):
            if char_is(arg[i], '#'):
                if i == len(arg) - 1:
                    return ('any',)                  # '#' followed by nothing: no fragment identifier
                return ('reject',)
        base = ['d'] if unit['where'] == 'top' else ['d', 's']
        if len(arg) >= 2 and char_is(arg[0], '/') and char_is(arg[1], '/'):
            if len(arg) == 2:
                return ('any',)                      # empty authority: the includer itself (F7, C07)
            return ('reject',)                       # another authority: nothing there
        segs = []
        cur = ''
        for i in range(len(arg)):
            if char_is(arg[i], '/'):
                segs.append(cur)
                cur = ''
            else:
                cur = cur + arg[i]
        segs.append(cur)
        if len(arg) > 0 and char_is(arg[0], '/'):
            work = segs[1:]
            out = []
        else:
            work = segs
            out = list(base)
        trailing = False
        for j, sg in enumerate(work):
            last = j == len(work) - 1
            if sg == '..':
                if out:
                    out.pop()
                trailing = last
            elif sg == '.':
                trailing = last
            elif len(sg) == 0:
                trailing = last
            else:
                out.append(sg)
                trailing = False
        if trailing:
            return ('reject',)                       # names a directory
        path = ''
        for j, sg in enumerate(out):
            path = path + ('/' if j else '') + sg
        for k, v in INCL_STORE.items():
            if path == k:
                return ('ok', ('L', [v[0].split(' ', 1)[1]]))
        if path == 'd/main.conf' or (unit['where'] == 'sub' and path == 'd/s/i.conf'):
            return ('any',)                          # includes itself: F7 (C07)
        return ('reject',)

    def expect(self, unit, inp, real):
        s = unit.get('prefix', '') + inp['s']
        fn = unit['fn']
        if fn == 'include':
            return self._include_expect(unit, s)
        if fn == 'schemaref':
            want = SCHEMA_LAYOUTS[unit['layout']][2]
            if want == 'REJECT':
                return ('reject', 'SchemaError')
            return ('ok', want)
        if fn == 'tree':
            return ('ok', TREE_CASES[unit['case']][2])
        if fn == 'urlnormalize':
            return ('ok', ref_urlnormalize(s))
        if fn == 'urljoin':
            return ('ok', ref_urlnormalize_cs(s))
        if fn == 'isPath':
            return ('ok', bool(ref_ispath(s)))
        if fn == 'url_from_file':
            n = len(s)
            return ('ok', bool(n > 0 and not char_is(s[0], '<') and not char_is(s[n - 1], '>')))
        if fn == 'normalizeURL':
            if ref_ispath(s):
                return ('ok', 'path', True)
            h = -1
            for i in range(len(s)):
                if char_is(s[i], '#'):
                    h = i
                    break
            if h >= 0:
                if h == len(s) - 1:
                    return ('any',)
                return ('ok', 'fragment-error')
            return ('ok', 'url', ref_urlnormalize(s))

    def agree(self, unit, real, exp):
        if exp[0] == 'any':
            if unit['fn'] == 'include':
                return z3.BoolVal(True)
            return z3.BoolVal(real[0] == 'ok')
        return deep_eq(real, exp)

    def classify(self, unit, real):
        return real[0]

    def nontrivial(self, unit, inp, real):
        return bool(inp['s'])


HARNESS = C18()

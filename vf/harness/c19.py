"""C19 - every resource opened during a load is closed, however the load ends.

Scenario graphs (config %include chains, %import of a package component, schema 'extends'
and '<import src>') over temp files.  The *fault point* is symbolic: which resource (creation
order), which read call on it, or which open, or which datatype / section-datatype call
raises - z3 integers; every feasible fault point is one path.  Observation: every object
created through BaseLoader.createResource (the documented override point) has .closed set
and every stream returned by urllib.request.urlopen is closed when the call returns or
raises; a following clean load gives the same outcome as on a fresh schema."""
import io
import os
import shutil
import tempfile
import urllib.request

import z3

from ..base import Harness
from ..core import SymInt, deep_eq
from .. import dtsupport
from . import pipeline as P

SCHEMA_MAIN = """<schema extends="base1.xml base2.xml">
  <import src="types.xml"/>
  <import package="ZConfig.components.basic" file="mapping.xml"/>
  <sectiontype name="mapping" extends="ZConfig.basic.mapping"/>
  <key name="ka" datatype="vf.dtsupport.counted_int" default="1"/>
  <multikey name="kb" datatype="vf.dtsupport.counted_int"/>
  <multisection type="ta" name="*" attribute="tas"/>
  <section type="mapping" name="*" attribute="map"/>
  <abstracttype name="ax"/>
  <multisection type="ax" name="*" attribute="axs"/>
</schema>
"""
SCHEMA_BASE1 = """<schema>
  <key name="kc" default="c"/>
</schema>
"""
SCHEMA_BASE2 = """<schema extends="base3.xml">
  <key name="kd" default="d"/>
</schema>
"""
SCHEMA_BASE3 = """<schema>
  <key name="ke"/>
</schema>
"""
SCHEMA_TYPES = """<schema>
  <sectiontype name="ta" datatype="vf.dtsupport.counted_section">
    <key name="kx" datatype="vf.dtsupport.counted_int" default="0"/>
  </sectiontype>
</schema>
"""
CONF = {
    'main.conf': ['ka 1', '%include inc1.conf', 'kb 2', '<ta>', '  %include sub/inc3.conf', '</ta>', 'kb 3'],
    'inc1.conf': ['kb 4', '%include inc2.conf', 'kc x'],
    'inc2.conf': ['kd y', '<ta n1>', 'kx 5', '</ta>'],
    'sub/inc3.conf': ['kx 6', '%include ../inc4.conf'],
    'inc4.conf': ['# nothing', '', '%include empty.conf'],
    'empty.conf': [],
}
CONF_IMPORT = {
    'main.conf': ['%import ZConfig.components.logger', 'ka 1', '%include inc1.conf'],
    'inc1.conf': ['kb 4', '%import ZConfig.components.basic', 'kb 5'],
}

# resources addressed through package: URLs - a regular package and a PEP 420 namespace package
# (no __init__.py; its loader has no get_data(), ZConfig reports that as a resource error)
CONF_PKG = {
    'main.conf': ['ka 1', '%include package:vfc19pk:frag.conf', 'kb 2', '%include package:vfc19ns:frag.conf', 'kb 3'],
}
# resources fetched through URL schemes other than file: - data: URLs, one of them labelled with a charset
# nobody knows (the label is ignored, the text is read as UTF-8)
CONF_DATA = {
    'main.conf': ['ka 1', '%include data:text/plain;charset=x-klingon,kb%207', '%include data:,kb%208', 'kb 9'],
}
# an %include cycle (a known finding of C07: it ends in RecursionError) - whatever it ends in, nothing stays open
CONF_CYCLE = {
    'main.conf': ['ka 1', '%include a.conf'],
    'a.conf': ['kb 2', '%include main.conf'],
}
# resources whose names end like compressed files (they are ordinary texts: a name says nothing about content)
CONF_GZ = {
    'main.conf': ['ka 1', '%include part.conf.gz', 'kb 2', '%include sub/OLD.GZ', 'kb 3'],
    'part.conf.gz': ['kb 7'],
    'sub/OLD.GZ': ['kb 8', '%include ../part.conf.gz'],
}
CONF_PKG2 = {
    'main.conf': ['ka 1', '%include package:vfc19ns:frag.conf'],
}

_DIR = {}


def workdir():
    """temp tree with the scenario files, created once per process, outside /repo and /verif"""
    d = _DIR.get('d')
    if d is None:
        d = tempfile.mkdtemp(prefix='vfc19_')
        _DIR['d'] = d
        import atexit
        atexit.register(shutil.rmtree, d, True)
        for name, text in (('schema.xml', SCHEMA_MAIN), ('base1.xml', SCHEMA_BASE1),
                           ('base2.xml', SCHEMA_BASE2), ('base3.xml', SCHEMA_BASE3),
                           ('types.xml', SCHEMA_TYPES)):
            open(os.path.join(d, name), 'w').write(text)
        # two components defining the same type name; the first one is invalid further down (it re-declares
        # a type of the application schema), so importing it fails after its first type was read
        for pk, body in (('vfc19b1', '<sectiontype name="tq"/><sectiontype name="ta"/>'),
                         ('vfc19b2', '<sectiontype name="tq"><key name="kq"/></sectiontype>'),
                         ('vfc19impl', '<sectiontype name="ti" implements="ax"><key name="ki"/></sectiontype>')):
            os.makedirs(os.path.join(d, pk))
            open(os.path.join(d, pk, '__init__.py'), 'w').write('')
            open(os.path.join(d, pk, 'component.xml'), 'w').write('<component>%s</component>' % body)
        for pk, init in (('vfc19pk', True), ('vfc19ns', False)):
            os.makedirs(os.path.join(d, pk))
            if init:
                open(os.path.join(d, pk, '__init__.py'), 'w').write('')
            open(os.path.join(d, pk, 'frag.conf'), 'w').write('kb 7\n')
        import sys
        sys.path.insert(0, d)
        for sub, files in (('c1', CONF), ('c2', CONF_IMPORT), ('c3', CONF_PKG), ('c4', CONF_PKG2), ('c7', CONF_DATA), ('c8', CONF_CYCLE), ('c9', CONF_GZ)):
            for name, lines in files.items():
                p = os.path.join(d, sub, name)
                os.makedirs(os.path.dirname(p), exist_ok=True)
                open(p, 'w').write(''.join(l + '\n' for l in lines))
    return d


class Injected(Exception):
    pass


class FaultyFile:
    def __init__(self, f, plan, rindex):
        self.f = f
        self.plan = plan
        self.rindex = rindex
        self.calls = 0
        self.closed = False

    def _tick(self):
        p = self.plan
        if p['kind'] == 'read' and p['res'] == self.rindex and p['call'] == self.calls:
            self.calls += 1
            raise Injected('read %d of resource %d' % (self.calls - 1, self.rindex))
        self.calls += 1

    def readline(self, *a):
        self._tick()
        return self.f.readline(*a)

    def read(self, *a):
        self._tick()
        return self.f.read(*a)

    def close(self):
        self.closed = True
        self.f.close()

    def __getattr__(self, n):
        return getattr(self.f, n)


class FaultyStream:
    """URL stream whose read() fails"""

    def __init__(self, s):
        self.s = s
        self.closed = False

    def read(self, *a):
        raise OSError('injected stream read failure')

    def close(self):
        self.closed = True
        self.s.close()

    def __getattr__(self, n):
        return getattr(self.s, n)


class Tracker:
    def __init__(self, plan):
        self.plan = plan
        self.resources = []
        self.streams = []
        self.opens = 0

    def __enter__(self):
        import ZConfig.loader as L
        self.L = L
        self.orig_create = L.BaseLoader.createResource
        self.orig_urlopen = urllib.request.urlopen
        tr = self

        def createResource(loader, file, url):
            r = tr.orig_create(loader, FaultyFile(file, tr.plan, len(tr.resources)), url)
            tr.resources.append(r)
            return r

        def urlopen(url, *a, **k):
            n = tr.opens
            tr.opens += 1
            if tr.plan['kind'] == 'open' and tr.plan['res'] == n:
                raise OSError('injected open failure %d' % n)
            s = tr.orig_urlopen(url, *a, **k)
            if tr.plan['kind'] == 'stream' and tr.plan['res'] == n:
                s = FaultyStream(s)
            tr.streams.append(s)
            return s
        L.BaseLoader.createResource = createResource
        urllib.request.urlopen = urlopen
        dtsupport.COUNTER.update(n=0, fail_at=self.plan['call'] if self.plan['kind'] == 'datatype' else None,
                                 sn=0, sfail_at=self.plan['call'] if self.plan['kind'] == 'section' else None)
        return self

    def __exit__(self, *a):
        self.L.BaseLoader.createResource = self.orig_create
        urllib.request.urlopen = self.orig_urlopen
        dtsupport.COUNTER.update(fail_at=None, sfail_at=None)

    def disarm(self):
        self.plan['kind'] = 'none'
        dtsupport.COUNTER.update(fail_at=None, sfail_at=None)

    def report(self):
        return (len(self.resources), all(r.closed for r in self.resources),
                all(s.closed for s in self.streams))


def _lt(c, i):
    return None


class C19(Harness):
    prop = 'C19'
    domain = 'D'
    title = ('symbolic fault point (z3 integers for resource, read call, open, datatype call, section '
             'datatype call) over include / %import / extends / import-src scenario graphs on temp files; '
             'on every feasible fault point all created resources and all URL streams are closed and a '
             'following clean load is unaffected')
    functions = ('ZConfig.loader.BaseLoader.loadURL', 'ZConfig.loader.BaseLoader.loadFile',
                 'ZConfig.loader.BaseLoader.openResource', 'ZConfig.loader.ConfigLoader.includeConfiguration',
                 'ZConfig.loader.ConfigLoader.importSchemaComponent', 'ZConfig.schema.BaseParser.loadComponent',
                 'ZConfig.schema.SchemaParser.extendSchema', 'ZConfig.schema.BaseParser.start_import',
                 'ZConfig.loader.', 'ZConfig.schema.')
    stubs = ('BaseLoader.createResource -> tracking resource with a fault-injecting file wrapper '
             '(documented override point)', 'urllib.request.urlopen -> tracking wrapper around the real one')
    assumptions = (
        'scenarios: schema (extends 2 bases, one of which extends a third; import src; package component), '
        'config c1 (include chain of depth 3 incl. sub- and parent directory, include inside a section), '
        'config c2 (%import of packages in main and included resource); c3 / c4 (%include of package: resources of a '
        'regular and of a namespace package); c1-twice / schema-twice (one loader object, a failed load, an edit to a '
        'resource it had read, a retry that must see the edit); all on temp files',
        'fault kinds: exception on the i-th read call of the j-th created resource, failure of the j-th '
        'urlopen, failure of read() on the j-th URL stream, ValueError from the k-th datatype call, ValueError from the k-th section datatype call',
        'the spaces are finite; every feasible fault point is one path (exhaustive within the scenario)',
    )
    expected_classes = ('closed',)
    nontrivial_rule = 'the path injected a fault that fired (the load ended with the injected exception)'
    step_limit = 20000
    slice_s = 10.0

    @property
    def bounds(self):
        return {'quick': {'max_resources': 12, 'max_reads': 9, 'max_calls': 10},
                'thorough': {'max_resources': 12, 'max_reads': 9, 'max_calls': 10}}

    def budget(self, tier):
        return 170 if tier == 'quick' else 600

    def units(self, tier):
        us = []
        for scen in ('schema', 'c1', 'c2', 'c1-file', 'stringio', 'schema-twice', 'c3', 'c4', 'c1-twice', 'c5-twice', 'c6-sameschema', 'c7', 'c8', 'c9'):
            for kind in ('none', 'read', 'open', 'stream', 'datatype', 'section'):
                us.append({'scenario': scen, 'kind': kind})
        return us

    def inputs(self, eng, unit):
        if unit['kind'] == 'none':
            return {}
        res = eng.fresh_int('res')
        call = eng.fresh_int('call')
        b = self.bounds['quick']
        eng.assume(z3.And(res >= 0, res < b['max_resources'], call >= 0, call < b['max_reads']))
        if unit['kind'] in ('open', 'stream'):
            eng.assume(call == 0)
        if unit['kind'] in ('datatype', 'section'):
            eng.assume(res == 0)
        return {'res': SymInt(res), 'call': SymInt(call)}

    def observe(self, unit, inp):
        import ZConfig
        d = workdir()
        plan = {'kind': unit['kind'], 'res': inp.get('res'), 'call': inp.get('call')}
        scen = unit['scenario']
        fired = None
        outcome = None
        twice_schema = None
        twice_cfg = None
        edited = False
        reuse_error = None
        with Tracker(plan) as tr:
            try:
                if scen == 'schema':
                    ZConfig.loadSchema(os.path.join(d, 'schema.xml'))
                elif scen == 'schema-twice':
                    # ONE SchemaLoader serves two loads of the same URL: the first may fail at the
                    # injected point, the second (a cache hit when the first succeeded) must close
                    # what it opens and must yield the complete schema
                    import ZConfig.loader
                    sl = ZConfig.loader.SchemaLoader()
                    first = None
                    try:
                        sl.loadURL(os.path.join(d, 'schema.xml'))
                    except (Injected, OSError, ZConfig.ConfigurationError) as e:
                        first = e
                    if first is not None:
                        # the injected fault fires once: the retry on the SAME loader must succeed -
                        # and must read the resources as they are NOW (a base schema is edited in between)
                        b3 = os.path.join(d, 'base3.xml')
                        try:
                            open(b3, 'w').write(SCHEMA_BASE3.replace('<key name="ke"/>', '<key name="ke" default="e3"/>'))
                            twice_schema = sl.loadURL(os.path.join(d, 'schema.xml'))
                            edited = True
                        except Exception as e:
                            reuse_error = type(e).__name__
                        finally:
                            open(b3, 'w').write(SCHEMA_BASE3)
                        raise first
                    twice_schema = sl.loadURL(os.path.join(d, 'schema.xml'))
                elif scen == 'c5-twice':
                    # ONE ConfigLoader: a load whose %import fails half-way through the component, then a
                    # load importing another component that defines the same type name
                    import ZConfig.loader
                    schema = ZConfig.loadSchema(os.path.join(d, 'schema.xml'))
                    cl = ZConfig.loader.ConfigLoader(schema)
                    first = None
                    try:
                        cl.loadFile(io.StringIO('ka 1\n%import vfc19b1\nkb 2\n'), 'file:///m/one.conf')
                    except (Injected, OSError, ZConfig.ConfigurationError) as e:
                        first = e
                    tr.disarm()
                    try:
                        cfg2, _ = cl.loadFile(io.StringIO('%import vfc19b2\nkd y\nkc x\n'), 'file:///m/two.conf')
                        twice_cfg = ('ok', [tuple(x) for x in P.walk(cfg2)[3][:3]])
                    except Exception as e:
                        twice_cfg = ('second-load-on-reused-config-loader-failed', type(e).__name__)
                    if first is not None:
                        raise first
                elif scen == 'c6-sameschema':
                    # ONE schema object, a fresh loader per load: a load that %import-s an implementer of an
                    # abstract type of the schema and fails further down, then the same import again
                    schema = ZConfig.loadSchema(os.path.join(d, 'schema.xml'))
                    first = None
                    try:
                        ZConfig.loadConfigFile(schema, io.StringIO('ka 1\n%import vfc19impl\n<ti/>\n<nosuchtype/>\n'),
                                               'file:///m/one.conf')
                    except (Injected, OSError, ZConfig.ConfigurationError) as e:
                        first = e
                    tr.disarm()
                    try:
                        cfg2, _ = ZConfig.loadConfigFile(schema, io.StringIO('%import vfc19impl\n<ti/>\nkd y\nkc x\n'),
                                                         'file:///m/two.conf')
                        twice_cfg = ('ok', [tuple(x) for x in P.walk(cfg2)[3][:3]])
                    except Exception as e:
                        twice_cfg = ('second-load-on-the-same-schema-failed', type(e).__name__)
                    if first is not None:
                        raise first
                elif scen == 'c1-twice':
                    # ONE ConfigLoader serves two loads of the same URL; when the first fails, an
                    # included resource is edited before the retry, which must see the edit
                    import ZConfig.loader
                    schema = ZConfig.loadSchema(os.path.join(d, 'schema.xml'))
                    cl = ZConfig.loader.ConfigLoader(schema)
                    path = os.path.join(d, 'c1', 'main.conf')
                    first = None
                    try:
                        cl.loadURL(path)
                    except (Injected, OSError, ZConfig.ConfigurationError) as e:
                        first = e
                    tr.disarm()        # the fault belongs to the first load
                    inc = os.path.join(d, 'c1', 'inc1.conf')
                    try:
                        if first is not None:
                            open(inc, 'w').write(''.join(l + '\n' for l in CONF['inc1.conf']).replace('kc x', 'kc edited'))
                        try:
                            cfg2, _ = cl.loadURL(path)
                            t = P.walk(cfg2)[3][:3]
                            want = ('kc', 'edited' if first is not None else 'x')
                            twice_cfg = ('ok', [tuple(x) if tuple(x) != want else ('kc', 'x') for x in t]
                                         if want in [tuple(x) for x in t] else ('stale', t))
                        except Exception as e:
                            twice_cfg = ('retry-on-reused-config-loader-failed', type(e).__name__)
                    finally:
                        open(inc, 'w').write(''.join(l + '\n' for l in CONF['inc1.conf']))
                    if first is not None:
                        raise first
                else:
                    # the schema itself is loaded inside the tracked region as well
                    schema = ZConfig.loadSchema(os.path.join(d, 'schema.xml'))
                    sub = scen if scen in ('c2', 'c3', 'c4', 'c7', 'c8', 'c9') else 'c1'
                    path = os.path.join(d, sub, 'main.conf')
                    if scen == 'stringio':
                        ZConfig.loadConfigFile(schema, io.StringIO('ka 1\nkb 2\n<ta>\n</ta>\n'))
                    elif scen == 'c1-file':
                        with open(path) as f:
                            ZConfig.loadConfigFile(schema, f)
                    else:
                        ZConfig.loadConfig(schema, path)
                outcome = 'returned'
            except Injected:
                outcome = 'injected'
            except OSError as e:
                outcome = 'injected' if 'injected' in str(e) else 'oserror'
            except ZConfig.ConfigurationError as e:
                outcome = 'config-error'
            except Exception as e:
                outcome = 'other:' + type(e).__name__
            n, res_closed, streams_closed = tr.report()
        # a later clean load must behave as on a fresh schema
        later = self._clean(d)
        if reuse_error is not None:
            later = ('retry-on-reused-loader-failed', reuse_error)
        elif scen == 'schema-twice' and later[0] == 'ok' and twice_schema is not None:
            # ... and so must a load against the schema the re-used loader handed out
            try:
                cfg, _ = ZConfig.loadConfig(twice_schema, os.path.join(d, 'c1', 'main.conf'))
                t = [tuple(x) for x in P.walk(cfg)[3][:3]]
                if edited:
                    # the retry happened after base3.xml gained a default for 'ke'
                    t = [('ke', None) if x == ('ke', 'e3') else (('ke', 'STALE') if x[0] == 'ke' else x) for x in t]
                later = ('ok', t)
            except Exception as e:
                later = ('failed-on-reused-loader', type(e).__name__)
        if twice_cfg is not None and later[0] == 'ok':
            later = twice_cfg
        return ('closed' if (res_closed and streams_closed) else 'LEAK', outcome, later)

    def _clean(self, d):
        import ZConfig
        try:
            schema = ZConfig.loadSchema(os.path.join(d, 'schema.xml'))
            cfg, _ = ZConfig.loadConfig(schema, os.path.join(d, 'c1', 'main.conf'))
            return ('ok', P.walk(cfg)[3][:3])
        except Exception as e:
            return ('failed', type(e).__name__)

    def expect(self, unit, inp, real):
        return ('closed', 'any', ('ok', [('ke', None), ('kd', 'y'), ('kc', 'x')]))

    def agree(self, unit, real, exp):
        return z3.BoolVal(real[0] == 'closed' and real[2][0] == 'ok' and
                          list(map(tuple, real[2][1])) == list(map(tuple, exp[2][1])))

    def classify(self, unit, real):
        return real[0]

    def nontrivial(self, unit, inp, real):
        return real[1] == 'injected' or real[1] == 'config-error'


HARNESS = C19()

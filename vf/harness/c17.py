"""C17 - schema-less configurations survive serialisation and re-reading unchanged.

Symbolic lines (as in C03) -> schemaless.loadConfigFile -> str() (Section.__str__ runs
symbolically: f-strings are real concatenations, sorted() compares symbolic keys) ->
loadConfigFile again -> str() again.  Assertion (z3, end of path): the reloaded structure
equals the original (keys -> value lists, section types / names / order / nesting, imports)
and the second serialisation is identical to the first."""
import z3

from ..base import Harness
from ..core import deep_eq, zand
from ..symstr import SymStr, simp, chars_of
from . import common


def _units(tier):
    us = []
    one = range(1, 7) if tier == 'quick' else range(1, 9)
    for L in one:
        us.append([[L]])
    two = [(2, 2), (3, 2), (2, 3), (3, 3)] if tier == 'quick' else \
        [(a, b) for a in range(1, 5) for b in range(1, 5)]
    for a, b in two:
        us.append([[a], [b]])
    T = [
        [['k ', 3]],
        [['k', 1, ' $', 2]],
        [[2, ' ', 1], [2, ' ', 1]],
        [['<', 3, '>'], ['</', 3, '>']],
        [['<', 2, ' ', 2, '>'], [2, ' ', 1], ['</', 2, '>']],
        [['<', 4, '/>']],
        [['<a>'], ['<', 2, '>'], [2], ['</', 1, '>'], ['</a>']],
        [['%import ', 3]],
        [['<a>'], ['%import ', 2], ['</a>'], ['%import ', 2]],
        [['%import ', 2], ['<a>'], ['%import ', 2], ['<b>'], ['%import ', 2], ['</b>'], ['</a>']],
        [['<A ', 2, '>'], ['K ', 2], ['k ', 2], ['</a>']],
        [['b ', 1], ['a ', 1], ['<s/>'], [1, ' ', 1]],
        [['%define ', 2]],
        [['%include ', 2]],
        # the refused directives with every kind of separator and spelling around them
        [['%define', 1, 'a', 1, 'b']],
        [['%include', 1, 'a', 1]],
        [[1, '%define', 1, 'a b']],
        [['<a>'], ['%define', 1, 'a b'], ['</a>'], ['k $a']],
        # any character in the MIDDLE of a value (form feed, NEL, LINE SEPARATOR, ... are not line ends for the
        # reader) at nesting depth 2 and 3; any character in front of a key on a line that is not the first
        [['<a>'], ['<b>'], ['k p', 1, 'q'], ['</b>'], ['</a>']],
        [['<a>'], ['<b>'], ['<c>'], [1, ' ', 1, 'q'], ['</c>'], ['</b>'], ['</a>']],
        [['# c'], [1, 'k v']],
        [[''], [1, '<s>'], ['</s>']],
        [['<s>'], ['</s>'], [1, 'k v']],
    ]
    if tier != 'quick':
        T += [
            [['k ', 5]],
            [['<', 5, '>'], ['</', 4, '>']],
            [['<', 3, ' ', 3, '/>']],
            [['<a>'], ['<b>'], [3], ['</b>'], [3], ['</a>']],
            [[2, ' ', 2], [2, ' ', 2], [2, ' ', 2]],
            [['%import ', 5]],
            [['<a/>'], ['<a/>'], [3]],
        ]
    return us + T


# loadConfigFile(file, url): an %include that names the resource being read (by any spelling) is refused
# like every other %include
URL_UNITS = [
    {'lines': [['%include zope.conf']], 'url': 'http://m/d/zope.conf'},
    {'lines': [['k v'], ['<a>'], ['%include ./zope.conf#x'], ['</a>']], 'url': 'http://m/d/zope.conf'},
    {'lines': [['%include ', 2]], 'url': 'http://m/d/ab'},
    {'lines': [['%include ../d/', 2]], 'url': 'http://m/d/ab'},
    {'lines': [['k ', 2], ['<', 2, '/>']], 'url': 'http://m/d/ab'},
]


class C17(Harness):
    prop = 'C17'
    domain = 'D'
    title = ('bounded symbolic execution of schemaless.loadConfigFile, Section.__str__ and the reload '
             'on symbolic lines; z3 decides at the end of every accepting path that structure and text '
             'survive the round trip')
    functions = ('ZConfig.schemaless.', 'ZConfig.cfgparser.', 'ZConfig.substitution.')
    assumptions = (
        'texts: 1-2 fully symbolic lines and line templates with symbolic holes (see bounds), characters '
        'over domain D, no line terminator inside a line',
        'whether the first load accepts a text is C03\'s subject; here every accepted text is round-tripped',
    )
    expected_classes = ('ok', 'reject1', 'notimpl')
    nontrivial_rule = 'the first load accepted the text and a round trip was compared'
    step_limit = 80000
    slice_s = 8.0

    @property
    def bounds(self):
        return {'quick': {'one_line_max': 6, 'two_lines': '<=3+3', 'templates': len(_units('quick')) - 6 - 4 + len(URL_UNITS)},
                'thorough': {'one_line_max': 8, 'two_lines': '<=4+4', 'templates': len(_units('thorough')) - 8 - 16 + len(URL_UNITS)}}

    def budget(self, tier):
        return 170 if tier == 'quick' else 1500

    def units(self, tier):
        return [{'lines': u} for u in _units(tier)] + [dict(u) for u in URL_UNITS]

    def inputs(self, eng, unit):
        _, holes = common.build_lines(self, eng, unit['lines'])
        return holes

    def observe(self, unit, inp):
        import ZConfig
        from ZConfig import schemaless
        lines = common.assemble(unit['lines'], inp)
        with common.env_scope(common.all_concrete(inp), {}):
            try:
                if unit.get('url'):
                    from .. import instr
                    if instr.installed():
                        instr.install_urllib()
                    c1 = schemaless.loadConfigFile(common.make_file(lines), unit['url'])
                else:
                    c1 = schemaless.loadConfigFile(common.make_file(lines))
            except ZConfig.ConfigurationError:
                return ('reject1',)
            except NotImplementedError:
                return ('notimpl',)
            except Exception as e:
                return ('crash', type(e).__name__)
            try:
                t1 = c1.__str__()
                s1 = _struct(c1)
            except Exception as e:
                return ('crash-print', type(e).__name__)
            try:
                c2 = schemaless.loadConfigFile(common.make_file(_split_lines(t1)))
            except ZConfig.ConfigurationError as e:
                return ('ok', s1, t1, ('reload-rejected', type(e).__name__), None)
            except NotImplementedError:
                return ('ok', s1, t1, ('reload-notimpl',), None)
            except Exception as e:
                return ('crash-reload', type(e).__name__)
            return ('ok', s1, t1, _struct(c2), c2.__str__())

    def expect(self, unit, inp, real):
        # '%define' and '%include' are refused rather than silently dropped: the line-grammar
        # reference says where the first such directive is reached before any syntax error
        from ..oracles import linegrammar as G
        if G.parse(common.assemble(unit['lines'], inp), 'schemaless')[0] == 'notimpl':
            return ('notimpl',)
        if real[0] == 'ok':
            return ('ok', real[1], real[2], real[1], real[2])
        if real[0] in ('reject1', 'notimpl'):
            return real
        return ('no-crash',)

    def classify(self, unit, real):
        return real[0]

    def nontrivial(self, unit, inp, real):
        return real[0] == 'ok'

    def finding(self, unit, inp, real, exp):
        text = '\n'.join(common.assemble(unit['lines'], inp))
        if real[0] == 'ok':
            hdr = [l.strip() for l in text.split('\n') if l.strip().startswith('<') and not l.strip().startswith('</')]
            for h in hdr:
                inner = h[1:-1]
                if inner.endswith('/'):
                    inner = inner[:-1]
                toks = inner.split()
                if any(t.endswith('/') for t in toks):
                    return 'F3'
            if '$' in text:
                return 'F2'
        return None


def _struct(sec):
    return (sec.type, sec.name, ('M', [(k, list(v)) for k, v in sec.items()]),
            [_struct(x) for x in sec.sections], list(sec.imports))


def _split_lines(t):
    """split the serialised text at its newline characters.  The symbolic characters are
    constrained to be different from \\n, so only concrete newlines occur."""
    cs = chars_of(t)
    out = []
    cur = []
    for c in cs:
        if isinstance(c, int) and c == 10:
            out.append(simp(tuple(cur)))
            cur = []
        else:
            cur.append(c)
    if cur:
        out.append(simp(tuple(cur)))
    return out


HARNESS = C17()

"""C12 - abstract slots accept exactly their implementers, including %import-ed ones.

Schemas with abstract types and concrete types that implement / extend / ignore them, two
generated component packages adding implementers.  Symbolic: the section-type and name
tokens of the text.  Enumerated: where the '%import' lines stand (before, between, after the
uses; repeated) and sequences of up to 3 loads against ONE schema object.
Oracle: the conformance oracle with a per-load vocabulary that an import line extends from
that line on; the implementer names of the schema's abstract types must be the same after
every load as before."""
import atexit
import os
import shutil
import sys
import tempfile

import z3

from ..base import Harness
from ..core import deep_eq
from .. import gen
from . import common, pipeline as P

SCH = gen.schema(
    types=[('abstract', 'aa'), ('abstract', 'ab'),
           gen.stype('ta', [gen.key('ka')], implements='aa'),
           gen.stype('tb', [gen.key('kb')]),
           gen.stype('tc', [gen.key('kc')], extends='ta'),
           gen.stype('td', [gen.key('kd')], implements='ab'),
           # an implementer that declares nothing at all (an empty type object is falsy)
           gen.stype('te', [], implements='aa')],
    items=[gen.multisection('aa', '*', attr='xs'),
           gen.section('tb', '*', attr='sb'),
           gen.section('ab', 'sa'),
           gen.key('kz')])
XML = gen.render(SCH)
VIEW = gen.View(SCH)

PACKAGES = {
    'vfq_a': {'types': [gen.stype('pa', [gen.key('ka')], implements='aa'),
                        gen.stype('pe', [gen.key('ke')], extends='pa')]},
    'vfq_b': {'types': [('abstract', 'ac'),
                        gen.stype('pb', [gen.key('kb', 'integer', default='1')], implements='aa'),
                        gen.stype('pc', [], implements='ab')]},
}
# two components that import each other (a core package and its add-on)
PACKAGES['vfq_m1'] = {'imports': ['vfq_m2'],
                      'types': [gen.stype('pm', [gen.key('km')], implements='aa')]}
PACKAGES['vfq_m2'] = {'imports': ['vfq_m1'],
                      'types': [gen.stype('pn', [gen.key('kn')], implements='ab')]}
# two components whose key datatypes have dotted names that differ in letter case only
PACKAGES['vfq_c1'] = {'types': [gen.stype('pq', [gen.key('kq', 'vf.dtsupport.shout')], implements='aa')]}
PACKAGES['vfq_c2'] = {'types': [gen.stype('pr', [gen.key('kq', 'vf.dtsupport.Shout')], implements='aa')]}
# a component that declares an implementer and THEN turns out to be invalid (it re-declares a type of the
# application schema): importing it is refused, and nothing of it may survive the refusal
PACKAGES['vfq_bad'] = {'types': [gen.stype('px', [gen.key('kx')], implements='aa'),
                                 gen.stype('ta', [gen.key('ka')])], 'broken': True}
# a component that defines a type NAMED like vfq_a's implementer 'pa' but without 'implements'
PACKAGES['vfq_a2'] = {'types': [gen.stype('pa', [gen.key('ka')])]}
# a package whose name contains a non-ASCII letter (PEP 3131)
PACKAGES['vfq_\u00e9'] = {'types': [gen.stype('pu', [gen.key('ku')], implements='aa')]}
# a component that names a stock datatype by its dotted path
PACKAGES['vfq_dt'] = {'types': [gen.stype('pd', [gen.key('kd', 'ZConfig.datatypes.integer', default='1')], implements='aa')]}
# a package split into two files the way the shipped logger component is: the application schema imports
# only 'abstract.xml' (the abstract type), a configuration %import-s the package (its component.xml with
# the implementer)
PACKAGES['vfq_s'] = {'types': [('abstract', 'ax'), gen.stype('ps', [gen.key('kp')], implements='ax')],
                     'no_render': [0],
                     'raw_imports': ['<import package="vfq_s" file="abstract.xml"/>'],
                     'files': {'abstract.xml': '<component>\n  <abstracttype name="ax"/>\n</component>\n'}}
SCH2 = gen.schema(types=[('abstract', 'ax'), gen.stype('tx', [gen.key('kx')], implements='ax')],
                  items=[gen.multisection('ax', '*', attr='ys'), gen.key('kz')])
XML2 = gen.render(SCH2).replace('  <abstracttype name="ax"/>\n', '  <import package="vfq_s" file="abstract.xml"/>\n')
VIEW2 = gen.View(SCH2)
_PK = {}


def ensure_packages():
    d = _PK.get('d')
    if d is None:
        d = tempfile.mkdtemp(prefix='vfc12_')
        _PK['d'] = d
        atexit.register(shutil.rmtree, d, True)
        for name, comp in PACKAGES.items():
            os.makedirs(os.path.join(d, name))
            open(os.path.join(d, name, '__init__.py'), 'w').write('')
            body = ''.join('  <import package="%s"/>\n' % x for x in comp.get('imports', ()))
            body += ''.join('  %s\n' % x for x in comp.get('raw_imports', ()))
            for fn, text in comp.get('files', {}).items():
                open(os.path.join(d, name, fn), 'w').write(text)
            for ti, t in enumerate(comp['types']):
                if ti in comp.get('no_render', ()):
                    continue          # comes from one of the package's other files
                if isinstance(t, tuple):
                    body += '  <abstracttype name="%s"/>\n' % t[1]
                else:
                    frag = gen.render({'items': [], 'types': [t]})
                    body += '\n'.join(frag.split('\n')[1:-2]) + '\n'
            open(os.path.join(d, name, 'component.xml'), 'w').write('<component>\n%s</component>\n' % body)
        # a package without a component, and a plain module
        os.makedirs(os.path.join(d, 'vfq_nocomp'))
        open(os.path.join(d, 'vfq_nocomp', '__init__.py'), 'w').write('')
        open(os.path.join(d, 'vfq_mod.py'), 'w').write('')
        sys.path.insert(0, d)
    return d


W = lambda i: ['w', 2, i]     # noqa

LOADS = {
    'use-before': [['<', W('t'), '/>'], '%import vfq_a'],
    'import-then-use': ['%import vfq_a', ['<', W('t'), '/>'], ['<', W('u'), ' nn/>']],
    'between': ['<ta/>', '%import vfq_b', ['<', W('u'), '/>'], '%import vfq_a', ['<', W('x'), '/>']],
    'twice': ['%import vfq_a', '%import vfq_b', '%import vfq_a', ['<', W('t'), ' sa/>'], '<pa/>'],
    'plain': [['<', W('t'), '/>'], ['<', W('u'), ' ', W('n'), '/>']],
    'bad-import': ['%import vfq_x', '<ta/>'],
    'nocomp': ['%import vfq_nocomp'],
    'module': ['%import vfq_mod'],
    'in-section': ['<tb>', '%import vfq_a', '</tb>', ['<', W('t'), '/>']],
    'fixed-slot': ['%import vfq_b', ['<', W('t'), ' sa>'], ['</', ['=', 't'], '>']],
    'mutual': ['%import vfq_m1', ['<', W('t'), '/>'], ['<', W('u'), ' sa/>']],
    'mutual-2': ['%import vfq_m2', '<pm/>', '%import vfq_m1', ['<', W('t'), ' sa/>']],
    # concrete variants used as the earlier steps of a sequence
    'c-import-use': ['%import vfq_a', '<pa/>', '<pe/>'.replace('pe', 'pa x')],
    'c-import-b': ['%import vfq_b', '<pb/>', '<pc sa/>'],
    'c-bad': ['<pa/>'],
    'c-import-ab': ['%import vfq_a', '%import vfq_b', '<pa/>', '<pb/>'],
    'c-import-ba': ['%import vfq_b', '<pc sa/>', '%import vfq_a'],
    # a load with a pending override for a later section while sections of imported types start
    'ovr': ['%import vfq_a', ['<', W('t'), '/>'], '<tb zz>', '</tb>', ['<', W('u'), ' nn/>']],
    'ovr-imported': ['%import vfq_a', ['<', W('t'), ' nn>'], ['</', ['=', 't'], '>'], '<tb/>'],
    'c-import-a2': ['%import vfq_a2', '<pa/>'],
    'nonascii-import': ['%import vfq_\u00e9', ['<', W('t'), '/>']],
    'c-import-broken': ['%import vfq_bad'],
    'broken-then-use': ['%import vfq_bad', ['<', W('t'), '/>']],
    # an %include after an %import: the fragment (and what follows it) still sees the imported types
    # (against the second schema, which imports only a part of package vfq_s)
    'alt-import-use': ['%import vfq_s', ['<', W('t'), '/>'], ['<', W('u'), ' nn/>']],
    'alt-use-before': [['<', W('t'), '/>'], '%import vfq_s', '<ps/>'],
    'import-include': ['%import vfq_a', '%include inc.conf', ['<', W('t'), '/>']],
    'import-include-2': ['<ta/>', '%import vfq_b', '<tb>', '%include inc2.conf', '</tb>', ['<', W('t'), ' sa/>']],
}
INCLUDED = {'inc.conf': [['<', W('u'), ' nn/>']], 'inc2.conf': ['kb 1']}
INLINED = {
    # (against the second schema, which imports only a part of package vfq_s)
    'alt-import-use': ['%import vfq_s', ['<', W('t'), '/>'], ['<', W('u'), ' nn/>']],
    'alt-use-before': [['<', W('t'), '/>'], '%import vfq_s', '<ps/>'],
    'import-include': ['%import vfq_a', ['<', W('u'), ' nn/>'], ['<', W('t'), '/>']],
    'import-include-2': ['<ta/>', '%import vfq_b', '<tb>', 'kb 1', '</tb>', ['<', W('t'), ' sa/>']],
}
# overrides passed with a load, and the same text edited by hand (what the oracle reads)
OVERRIDES = {
    'ovr': (['zz/kb=o1'], ['%import vfq_a', ['<', W('t'), '/>'], '<tb zz>', 'kb o1', '</tb>', ['<', W('u'), ' nn/>']]),
    'ovr-imported': (['nn/ka=o2'], ['%import vfq_a', ['<', W('t'), ' nn>'], 'ka o2', ['</', ['=', 't'], '>'], '<tb/>']),
}
SEQS_Q = [['plain'], ['mutual'], ['mutual-2'], ['import-then-use'], ['use-before'], ['between'], ['twice'], ['bad-import'], ['nocomp'],
          ['module'], ['in-section'], ['fixed-slot'], ['c-import-use', 'plain'], ['c-import-b', 'c-bad', 'plain'],
          ['c-import-use', 'c-import-b', 'use-before']]
# every (concrete earlier load, any later load) pair against one schema object
SEQS_Q += [[a, b] for a in ('c-import-use', 'c-import-b', 'c-bad', 'bad-import') for b in LOADS
           if [a, b] not in SEQS_Q]
SEQS_Q += [['nonascii-import'], ['c-import-a2'], ['c-import-use', 'c-import-a2'], ['c-import-a2', 'c-import-use'], ['ovr'], ['ovr-imported'], ['c-import-ab'], ['c-import-ba'], ['import-include'], ['import-include-2'],
           ['broken-then-use'], ['c-import-broken', 'plain'], ['c-import-broken', 'import-then-use'],
           ['c-import-use', 'import-include'], ['alt-import-use'], ['alt-use-before'], ['alt-import-use', 'alt-use-before']]
SEQS_Q += [[a, b] for a in ('c-import-ab', 'c-import-ba')
           for b in ('import-then-use', 'use-before', 'plain', 'fixed-slot', 'between')]
# ONE ConfigLoader object serving the loads of a sequence (the vocabulary of an earlier load of the same
# loader must not reach a later one either)
SAME_LOADER = [[a, b] for a in ('c-import-use', 'c-import-b', 'c-import-ab')
               for b in ('plain', 'use-before', 'import-then-use', 'fixed-slot')]
EXT_LOADER = [['c-import-use', 'plain'], ['c-import-use', 'import-then-use'], ['c-import-ab', 'use-before']]
SAME_LOADER += [['c-import-broken', 'plain'], ['c-import-broken', 'import-then-use'], ['c-import-use', 'import-include']]
SEQS_T = SEQS_Q + [[a, b, c] for a in ('c-import-use', 'c-bad') for b in ('c-import-b', 'c-import-use', 'nocomp')
                   for c in ('import-then-use', 'between', 'twice', 'fixed-slot', 'plain')] + [['c-import-b', 'import-then-use'], ['bad-import', 'c-import-use', 'fixed-slot'],
                   ['c-import-use', 'c-import-use', 'twice'], ['c-bad', 'in-section']]


class C12(P.TextMixin, Harness):
    prop = 'C12'
    domain = 'D'
    title = ('bounded symbolic execution of the load pipeline with %import lines (generated component '
             'packages) and symbolic section-type tokens, single loads and sequences of loads against one '
             'schema object; accept/reject and value trees against a conformance oracle whose vocabulary an '
             'import extends from that line on; implementer names of the schema unchanged')
    functions = ('ZConfig.info.SectionType.getsectioninfo', 'ZConfig.schema.BaseParser.start_sectiontype',
                 'ZConfig.loader.ConfigLoader.importSchemaComponent', 'ZConfig.info.createDerivedSchema',
                 'ZConfig.loader.ConfigLoader.startSection', 'ZConfig.cfgparser.ZConfigParser.handle_import',
                 'ZConfig.loader.', 'ZConfig.info.', 'ZConfig.schema.', 'ZConfig.matcher.')
    assumptions = (
        'one schema (2 abstract types, 4 concrete types implementing / extending / ignoring them, a fixed-name '
        'abstract slot) and two generated component packages; package names are concrete (import is native)',
        'sequences of up to 3 loads against one schema object; texts as enumerated in vf/harness/c12.py',
    )
    expected_classes = ('ok', 'reject')
    nontrivial_rule = 'every completed path'
    step_limit = 80000
    slice_s = 8.0

    @property
    def bounds(self):
        return {'quick': {'sequences': len(SEQS_Q)}, 'thorough': {'sequences': len(SEQS_T)}}

    def budget(self, tier):
        return 170 if tier == 'quick' else 1200

    def units(self, tier):
        us = []
        for seq in (SEQS_Q if tier == 'quick' else SEQS_T):
            files = []
            for i, name in enumerate(seq):
                lines = []
                for line in LOADS[name]:
                    if isinstance(line, str):
                        lines.append(line)
                    else:
                        # make the hole ids distinct per step
                        lines.append([(p if isinstance(p, str) else
                                       ([p[0], p[1], '%s%d' % (p[2], i)] if len(p) == 3 else [p[0], '%s%d' % (p[1], i)]))
                                      for p in line])
                files.append(['step%d.conf' % i, lines])
            # two obligations per sequence, so that the known finding about implementer names
            # cannot mask a wrong load outcome on the same path
            us.append({'files': files, 'seq': seq, 'check': 'outcome'})
            us.append({'files': files, 'seq': seq, 'check': 'names'})
            if seq in SAME_LOADER:
                us.append({'files': files, 'seq': seq, 'check': 'outcome', 'same_loader': True})
            if seq in EXT_LOADER:
                # the loader class that carries command-line overrides (one harmless override: 'kz=o')
                us.append({'files': files, 'seq': seq, 'check': 'outcome', 'same_loader': 'ext'})
        for u in us:
            # the hand-edited spelling of a load that carries overrides
            if any(n in OVERRIDES or n in INLINED for n in u['seq']):
                u['edited'] = [[f[0], self._step_lines(OVERRIDES[n][1], i) if n in OVERRIDES else
                                (self._step_lines(INLINED[n], i) if n in INLINED else f[1])]
                               for i, (n, f) in enumerate(zip(u['seq'], u['files']))]
            if any(n in INLINED for n in u['seq']):
                # the included fragments, with the hole ids of the step they belong to
                u['files'] = u['files'] + [['inc%d/%s' % (i, fn), self._step_lines(ls, i)]
                                           for i, n in enumerate(u['seq']) if n in INLINED
                                           for fn, ls in INCLUDED.items()]
                u['nsteps'] = len(u['seq'])
        return us

    @staticmethod
    def _step_lines(tmpl, i):
        lines = []
        for line in tmpl:
            if isinstance(line, str):
                lines.append(line)
            else:
                lines.append([(p if isinstance(p, str) else
                               ([p[0], p[1], '%s%d' % (p[2], i)] if len(p) == 3 else [p[0], '%s%d' % (p[1], i)]))
                              for p in line])
        return lines

    def inputs(self, eng, unit):
        return self.text_inputs(eng, unit)

    def observe(self, unit, inp):
        import ZConfig
        import io
        ensure_packages()
        files = self.text_files(unit, inp)
        alt = unit['seq'][0].startswith('alt-')
        schema = ZConfig.loadSchemaFile(io.StringIO(XML2 if alt else XML))
        absnames = ('ax',) if alt else ('aa', 'ab')
        names0 = [schema.gettype(a).getsubtypenames() for a in absnames]
        out = []
        loader = None
        if unit.get('same_loader') == 'ext':
            import ZConfig.cmdline
            loader = ZConfig.cmdline.ExtendedConfigLoader(schema)
            loader.addOption('kz=o')
        elif unit.get('same_loader'):
            import ZConfig.loader
            loader = ZConfig.loader.ConfigLoader(schema)
        for si, (step, (name, lines)) in enumerate(zip(unit['seq'], files)):
            store = {P.BASE + n.split('/', 1)[1]: ls for n, ls in files if n.startswith('inc%d/' % si)}
            with common.env_scope(common.all_concrete(inp), {}), P.mem_resources(store):
                try:
                    if loader is not None:
                        cfg, _ = loader.loadFile(common.make_file(lines), P.BASE + name)
                    else:
                        cfg, _ = ZConfig.loadConfigFile(schema, common.make_file(lines), P.BASE + name,
                                                        OVERRIDES[step][0] if step in OVERRIDES else ())
                    o = ('ok', P.walk(cfg))
                except ZConfig.ConfigurationError:
                    o = ('reject',)
                except Exception as e:
                    o = ('crash', type(e).__name__)
            out.append(o)
        names1 = [schema.gettype(a).getsubtypenames() for a in absnames]
        return ('seq', out, names0, names1)

    def expect(self, unit, inp, real):
        from ..oracles import linegrammar as G, conformance as CF
        files = self.text_files(unit, inp, 'edited' if 'edited' in unit else 'files')
        out = []
        for name, lines in files[:len(unit['seq'])]:
            if unit.get('same_loader') == 'ext':
                lines = list(lines) + ['kz o']          # the override, written into the text
            g = G.parse(lines, 'record', want_lines=True)
            if g[0] != 'ok':
                out.append(('reject',))
                continue
            r = CF.evaluate(VIEW2 if unit['seq'][0].startswith('alt-') else VIEW, g[1], packages=PACKAGES)
            out.append(r if r[0] != 'reject' else ('reject',))
        base = [['ta', 'te'], ['td']]
        if unit['seq'][0].startswith('alt-'):
            base = [['tx']]
        return ('seq', out, base, base)

    def agree(self, unit, real, exp):
        if unit['check'] == 'names':
            return z3.And(deep_eq(real[2], exp[2]), deep_eq(real[3], exp[3]))
        conds = []
        for r, e in zip(real[1], exp[1]):
            if e[0] == 'any':
                conds.append(z3.BoolVal(r[0] in ('ok', 'reject')))
            else:
                conds.append(deep_eq(r, e))
        return z3.And(conds)

    def classify(self, unit, real):
        return real[1][-1][0]

    def finding(self, unit, inp, real, exp):
        # F20: an override addressed to a section of an %import-ed type is refused
        if unit['check'] == 'outcome' and 'ovr-imported' in unit['seq'] and not unit.get('same_loader'):
            bad = [i for i, (r, e) in enumerate(zip(_j(real[1]), _j(exp[1]))) if r != e]
            if bad and all(unit['seq'][i] == 'ovr-imported' and str(inp.get('h_t%d' % i, '')).lower() in ('pa', 'pe')
                           and _j(real[1])[i] == ['reject'] and _j(exp[1])[i][0] == 'ok' for i in bad):
                return 'F20'
        # F24: a type name registered as implementer by an EARLIER load's %import is honoured for a same-named
        # type that a later load imports without 'implements' (consequence of F10's shared abstract types)
        if unit['check'] == 'outcome' and 'c-import-a2' in unit['seq'] and not unit.get('same_loader'):
            bad = [i for i, (r, e) in enumerate(zip(_j(real[1]), _j(exp[1]))) if r != e]
            if bad and all(unit['seq'][i] == 'c-import-a2' and 'c-import-use' in unit['seq'][:i]
                           and _j(real[1])[i][0] == 'ok' and _j(exp[1])[i] == ['reject'] for i in bad):
                return 'F24'
        # F10: outcomes all right, only the implementer names of the shared abstract types grew
        if unit['check'] == 'names' and _j(real[2]) == _j(exp[2]) and _j(real[3]) != _j(exp[3]):
            grown = all(set(b) <= set(a) for a, b in zip(real[3], exp[3]))
            if grown:
                return 'F10'
        return None


def _j(x):
    import json
    return json.loads(json.dumps(x))


HARNESS = C12()

"""C16 - the composite handler delivers every handled value exactly once, all or nothing.

Schemas with handler attributes on keys, multikeys, sections, multisections (at two depths)
and on the schema.  Symbolic: two of the handler-map names (2 characters, constrained to
legal basic-keys - so every case variant, every colliding spelling and every unknown name
is covered), section-name tokens of the text.  Enumerated: texts (which items are
instantiated, how often, in which closing order) and which map entries are None.
Oracle: the expected (name, value-location) sequence derived from the schema description
and the text's event stream: a section's own items in schema order after the entries of
every nested section (in closing order), the schema-level handler last."""
import z3

from ..base import Harness
from ..core import deep_eq
from .. import gen
from ..oracles import linegrammar as G, conformance as CF, dtspec
from . import common, pipeline as P

H1 = gen.schema(
    handler='hs',
    types=[gen.stype('tc', [gen.key('kd', handler='hk')]),
           gen.stype('ta', [gen.multisection('tc', '*', attr='cs', handler='hm'),
                            gen.key('kc', 'integer', handler='hc'),
                            gen.key('ke')]),
           gen.stype('td', [], extends='ta')],
    items=[gen.key('ka', handler='ha', default='d'),
           gen.multisection('ta', '+', attr='ms', handler='he'),
           gen.multikey('kb', handler='hb'),
           gen.section('td', '*', attr='sa', handler='hd'),
           gen.key('kz')])
H2 = gen.schema(
    types=[gen.stype('ta', [gen.key('ka', handler='h-a')], datatype=gen.WRAP)],
    items=[gen.multisection('ta', '*', attr='xs'), gen.key('+', attr='any', handler='h.w')])
# a schema whose own key type is NOT basic-key: handler names are still matched after basic-key normalisation
H3 = gen.schema(
    keytype='identifier', handler='hs',
    types=[gen.stype('ta', [gen.key('h1', handler='hk')], keytype='ipaddr-or-hostname')],
    items=[gen.key('Ka', handler='ha'), gen.key('kb', handler='Hb'), gen.multisection('ta', '*', attr='xs', handler='hM')])
# an intermediate section type WITHOUT any handler attribute whose sections contain handler-bearing items
H4 = gen.schema(
    handler='hs', datatype=gen.WRAP,
    types=[gen.stype('tc', [gen.key('kd', handler='hk'), gen.key('ke')]),
           gen.stype('tm', [gen.multisection('tc', '*', attr='cs'), gen.key('km')]),
           gen.stype('to', [gen.section('tm', '*', attr='sm'), gen.multisection('tc', '+', attr='cs', handler='hc')])],
    items=[gen.section('tm', '*', attr='sm'), gen.multisection('to', '+', attr='os'), gen.key('ka', handler='ha')])
SCH = {'H1': H1, 'H2': H2, 'H3': H3, 'H4': H4}
XMLS = {k: gen.render(v) for k, v in SCH.items()}
VIEWS = {k: gen.View(v) for k, v in SCH.items()}

TEXTS = {
    'H1': [
        ['ka 1', 'kb x', 'kb y'],
        ['<td>', 'kc 5', '<tc/>', '<tc c2>', 'kd q', '</tc>', '</td>', '<ta n1/>', '<ta n2>', '<tc/>', '</ta>'],
        [],
        [['<ta ', ['w', 2, 'n'], '>'], '</ta>', ['<ta ', ['w', 2, 'm'], '/>'], 'kz 1'],
        ['<ta a1>', '<tc/>', 'kc 1', '<tc x/>', '</ta>', '<td>', '<tc>', 'kd 2', '</tc>', '</td>', '<ta a2/>', 'kb z'],
    ],
    'H2': [
        ['<ta/>', '<ta x>', 'ka 1', '</ta>', 'zz 2'],
        [[['w', 2, 'k'], ' v'], '<ta/>'],
    ],
}
TEXTS['H3'] = [['Ka 1', 'kb 2', '<ta/>', '<ta x>', 'h1 v', '</ta>'], []]
TEXTS['H4'] = [['<tm>', '<tc/>', '<tc x>', 'kd 1', '</tc>', '</tm>', 'ka 2'],
               ['<to o1>', '<tm>', '<tc/>', '</tm>', '<tc c1/>', '</to>', '<to o2>', '<tc c2>', 'kd 3', '</tc>', '<tm>', '<tc/>', '<tc y/>',
                '</tm>', '</to>', '<tm/>']]
NAMES = {'H4': ['ha', 'hc', 'hk', 'hs'], 'H1': ['ha', 'hb', 'hc', 'hd', 'he', 'hk', 'hm', 'hs'], 'H2': ['h-a', 'h.w'],
         'H3': ['ha', 'hb', 'hk', 'hm', 'hs']}


def bk_pred(c, i):
    letter = z3.Or(z3.And(c >= 65, c <= 90), z3.And(c >= 97, c <= 122))
    if i == 0:
        return letter
    return z3.Or(letter, z3.And(c >= 48, c <= 57), c == 45, c == 46, c == 95)


class Pairs:
    """a name-to-callable mapping as CompositeHandler.__call__ uses it (items()); mutable in place"""

    def __init__(self, pairs):
        self.pairs = list(pairs)

    def items(self):
        return list(self.pairs)

    def __len__(self):
        return len(self.pairs)

    def __iter__(self):
        return iter([k for k, v in self.pairs])

    def keys(self):
        return [k for k, v in self.pairs]

    def values(self):
        return [v for k, v in self.pairs]


class FalsyCallable(list):
    """a callable whose truth value is False (an empty list subclass with __call__)"""

    def __init__(self, fn):
        list.__init__(self)
        self.fn = fn

    def __call__(self, v):
        return self.fn(v)


def expected_entries(view, events):
    """[(handler name, path)] in delivery order; path locates the value in the tree:
    list of ('attr', name) / ('idx', i) steps from the top-level section value"""
    out = []

    def items_of(cont, path):
        res = []
        for it in cont['items']:
            if it.get('handler'):
                res.append((it['handler'].lower(), path + [('attr', view.attr_of(it))]))
        return res

    # replay the nesting from the events
    stack = [(view.top, [], {})]       # (container desc, path, per-attr counters)
    for ev in events:
        if ev[0] == 'start':
            cont, path, counters = stack[-1]
            tname = ev[2]
            # which slot?  use the conformance search
            st = CF.State(view, cont, None, None)
            idx = st.find_slot(tname, ev[3])
            it = cont['items'][idx]
            attr = view.attr_of(it)
            if it['kind'] == 'multisection':
                k = counters.get(attr, 0)
                counters[attr] = k + 1
                p = path + [('attr', attr), ('idx', k)]
            else:
                p = path + [('attr', attr)]
            stack.append((view.types[tname], p, {}))
        elif ev[0] == 'end':
            cont, path, _ = stack.pop()
            out += items_of(cont, path)
    out += items_of(view.top, [])
    if view.s.get('handler'):
        out.append((view.s['handler'].lower(), []))
    return out


def resolve(cfg, path):
    from ..dtsupport import Wrapped
    v = cfg
    for kind, x in path:
        if isinstance(v, Wrapped):
            v = v.value
        v = getattr(v, x) if kind == 'attr' else v[x]
    return v


class C16(P.TextMixin, Harness):
    prop = 'C16'
    domain = 'D'
    title = ('bounded symbolic execution of CompositeHandler.__call__/__len__ and the handler '
             'append sites in the matcher, with symbolic handler-map names; the call sequence, the '
             'identity of delivered values with the value tree, len(), None skipping and the '
             'all-or-nothing rule are compared with an oracle derived from the schema description')
    functions = ('ZConfig.loader.CompositeHandler.', 'ZConfig.matcher.BaseMatcher.constuct',
                 'ZConfig.matcher.SchemaMatcher.finish', 'ZConfig.schema.BaseParser.get_handler',
                 'ZConfig.matcher.', 'ZConfig.loader.')
    assumptions = (
        'schemas H1, H2, H3, H4 (H4: handler-free intermediate section types; H3: schema key type identifier, section key type ipaddr-or-hostname; handlers on the schema, keys, multikeys, sections, multisections at two '
        'depths; hyphen and dot in handler names) and the enumerated texts',
        'handler-map names are legal basic-keys (precondition on the symbolic names); names that are '
        'not legal basic-keys raise ValueError from the normaliser and are outside the statement',
        'two of the map names are symbolic per unit, the others concrete; entries mapped to None are '
        'enumerated',
    )
    expected_classes = ('ok', 'error')
    nontrivial_rule = 'every completed path'
    step_limit = 60000
    slice_s = 8.0

    @property
    def bounds(self):
        return {'quick': {'units': len(self.units('quick'))}, 'thorough': {'units': len(self.units('thorough'))}}

    def budget(self, tier):
        return 170 if tier == 'quick' else 1200

    def units(self, tier):
        us = []
        for sid, texts in TEXTS.items():
            names = NAMES[sid]
            for ti, t in enumerate(texts):
                allc = [(a, b) for a in range(len(names)) for b in range(a + 1, len(names))]
                combos = [c for c in [(0, 1), (2, len(names) - 1)] if c in allc] if tier == 'quick' \
                    else allc[::3][:10]
                for (a, b) in combos:
                    for nones in ([], [names[(a + 1) % len(names)]], [names[a]]):
                        us.append({'schema': sid, 'text': ti, 'files': [['main.conf', t]],
                                   'sym': [a, b], 'none': nones, 'extra': False, 'must_reach': 'ok'})
                # an extra (superfluous / duplicate) symbolic entry on top of a complete map
                us.append({'schema': sid, 'text': ti, 'files': [['main.conf', t]], 'sym': [],
                           'none': [], 'extra': True})
                # two superfluous symbolic entries (names no entry uses may still collide), one None
                us.append({'schema': sid, 'text': ti, 'files': [['main.conf', t]], 'sym': [],
                           'none': ['extra'], 'extra': 2})
                # a falsy callable; the same mapping object called twice with an in-place edit between
                us.append({'schema': sid, 'text': ti, 'files': [['main.conf', t]], 'sym': [],
                           'none': [], 'extra': False, 'falsy': True})
                us.append({'schema': sid, 'text': ti, 'files': [['main.conf', t]], 'sym': [],
                           'none': [], 'extra': False, 'twice': True})
                us.append({'schema': sid, 'text': ti, 'files': [['main.conf', t]], 'sym': [0, 1],
                           'none': [], 'extra': False, 'twice': True})
                # the same handler OBJECT: a complete map first, then a map that lacks the last name - refused
                # without calling anything, like on a fresh object
                us.append({'schema': sid, 'text': ti, 'files': [['main.conf', t]], 'sym': [],
                           'none': [], 'extra': False, 'twice': 'then-incomplete'})
        return us

    def inputs(self, eng, unit):
        inp = self.text_inputs(eng, unit)
        for j, a in enumerate(unit['sym']):
            inp['m%d' % j] = self.sym_str(eng, 'm%d' % j, len(NAMES[unit['schema']][a]), bk_pred)
        if unit['extra']:
            inp['mx'] = self.sym_str(eng, 'mx', 2, bk_pred)
        if unit['extra'] == 2:
            inp['my'] = self.sym_str(eng, 'my', 2, bk_pred)
        return inp

    def map_names(self, unit, inp):
        names = list(NAMES[unit['schema']])
        keys = list(names)
        for j, a in enumerate(unit['sym']):
            keys[a] = inp['m%d' % j]
        pairs = [(k, n) for k, n in zip(keys, names)]      # (supplied name, which callable)
        if unit['extra']:
            pairs.append((inp['mx'], 'extra'))
        if unit['extra'] == 2:
            pairs.append((inp['my'], 'extra2'))
        if unit.get('twice') == 'then-incomplete':
            pairs = pairs[:-1]          # what the SECOND call is given
        return pairs

    def observe(self, unit, inp):
        import ZConfig
        files = self.text_files(unit, inp)
        r = self.real_load(XMLS[unit['schema']], files, common.all_concrete(inp))
        if r[0] != 'ok':
            return ('load-' + r[0],)
        cfg, handler = r[1], r[2]
        calls = []
        pairs = []
        for supplied, which in self.map_names(unit, inp):
            fn = (lambda w: (lambda v: calls.append((w, v))))(which)
            if which in unit['none']:
                pairs.append((supplied, None))
            elif unit.get('falsy') and which == NAMES[unit['schema']][0]:
                pairs.append((supplied, FalsyCallable(fn)))
            else:
                pairs.append((supplied, fn))
        mapping = Pairs(pairs)
        try:
            if unit.get('twice') == 'then-incomplete':
                last = NAMES[unit['schema']][-1]
                full = Pairs(pairs + [(last, (lambda v: calls.append((last, v))))])
                try:
                    handler(full)
                except ZConfig.ConfigurationError:
                    pass
                del calls[:]
            elif unit.get('twice'):
                # the SAME mapping object used for an earlier, successful call, then changed in place
                # at the same size: the first entry's callable is swapped for None and back
                first = [(k, (None if i == 0 else v)) for i, (k, v) in enumerate(pairs)]
                mapping.pairs = first
                try:
                    handler(mapping)
                except ZConfig.ConfigurationError:
                    pass
                del calls[:]
                mapping.pairs = list(pairs)
            handler(mapping)
        except ZConfig.ConfigurationError:
            return ('error', len(calls), len(handler))
        except Exception as e:
            return ('crash', type(e).__name__)
        # identity of every delivered value with the tree value at the expected location
        g = G.parse([x[2] for x in self.flatten(files)], 'record')
        try:
            exp = expected_entries(VIEWS[unit['schema']], g[1]) if g[0] == 'ok' else []
        except (CF.Reject, CF.Any):
            exp = []
        # the delivered object must BE (identity) the tree value at a handler-bearing location
        idents = [any(resolve_ok(cfg, p, v) for n, p in exp) for w, v in calls]
        return ('ok', len(handler), [(w, P.walk(v)) for w, v in calls], idents)

    def expect(self, unit, inp, real):
        files = self.text_files(unit, inp)
        view = VIEWS[unit['schema']]
        flat = self.flatten(files)
        o = P.oracle_load(view, flat)
        if o[0] != 'ok':
            return ('load-' + o[0],) if o[0] == 'reject' else o[:1]
        g = G.parse([x[2] for x in flat], 'record')
        entries = expected_entries(view, g[1])
        # normalise the supplied names
        norm = []
        for supplied, which in self.map_names(unit, inp):
            norm.append((dtspec.basic_key(supplied), which))
        for i in range(len(norm)):
            for j in range(i + 1, len(norm)):
                if norm[i][0] == norm[j][0]:
                    return ('error', 0, len(entries))
        order = []
        for name, path in entries:
            found = None
            for k, which in norm:
                if k == name:
                    found = which
                    break
            if found is None:
                return ('error', 0, len(entries))
            order.append((found, path))
        calls = []
        for which, path in order:
            if which in unit['none']:
                continue
            calls.append((which, tree_at(o[1], path)))
        return ('ok', len(entries), calls, [True] * len(calls))

    def agree(self, unit, real, exp):
        if exp[0] == 'any':
            return z3.BoolVal(True)
        return deep_eq(real, exp)

    def classify(self, unit, real):
        return real[0] if not real[0].startswith('load-') else 'load-failed'


def resolve_ok(cfg, path, v):
    try:
        return resolve(cfg, path) is v
    except Exception:
        return False


def tree_at(tree, path):
    """follow a path in the oracle's tree representation"""
    v = tree
    for kind, x in path:
        if v[0] == 'W':
            v = v[1]
        if kind == 'attr':
            for a, val in v[3]:
                if a == x:
                    v = val
                    break
        else:
            v = v[1][x]
    return v


HARNESS = C16()

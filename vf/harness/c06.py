"""C06 - %include behaves as textual inclusion of a self-contained fragment.

Differential, real code against real code: a text with symbolic tokens is loaded once with
balanced line ranges moved into included in-memory resources (same directory, a
sub-directory, the parent directory; nested cuts) and once inlined; same symbolic tokens on
both sides; z3 decides equality of the value trees / of rejection on every path.
Fragments that close a section they did not open or leave one open must be rejected."""
import z3

from ..base import Harness
from ..core import deep_eq
from .. import gen
from . import common, pipeline as P
from .c01 import VIEWS, XML
from .c05 import SD_XML, SD_VIEW

MAINNAME = 'x/main.conf'


def W(i):
    return ['w', 2, i]


def V(i):
    return ['v', 1, i]


from . import c12 as _c12

BASES = {
    'B1': ('S2', ['kt 5', '<ta n1>', [W('k1'), ' ', V('v1')], '  kb x', '</ta>',
                  ['<', W('t2'), '>'], '  ka 2', ['</', ['=', 't2'], '>'], 'zz top']),
    'B2': ('SD', [['%define ', ['n', 1, 'a'], ' ', ['d', 2, 'x']], ['k1 $', ['n', 1, 'b']],
                  ['%define ', ['n', 1, 'c'], ' w'], ['k2 $', ['n', 1, 'e']]]),
    'B3': ('S4', ['<ta>', '  <tb>', ['    <tc ', W('n1'), '/>'], ['    ', W('k1'), ' ', V('v1')],
                  '  </tb>', '  ka 1', '</ta>', ['km ', V('v2')]]),
    'B4': ('S2', [['<ta ', W('n1'), '>'], '  ka 1', '</ta>', ['<ta ', W('n2'), '>'], ['  ka ', V('v1')],
                  '</ta>']),
    'B5': ('S2', [['<ta ', W('n1'), '>'], '  ka 1', ['  ', W('k1'), ' ', V('v1')], '</ta>',
                  ['<ta ', W('n2'), '>'], '  ka 1', '</ta>']),
    # a text that %import-s a component: what the import added holds inside and after included fragments
    'B6': ('I12', ['%import vfq_a', ['<', W('t1'), ' n1>'], ['</', ['=', 't1'], '>'], '<tb>', 'kb 1', '</tb>',
                   ['<', W('t2'), '/>'], 'kz z']),
    # a %define written inside a section (definitions are global to the configuration wherever they are
    # written): cuts that take it out of the section without the header
    'B7': ('S2', ['<ta n1>', ['  %define ', ['n', 1, 'a'], ' 2'], ['  ka $', ['n', 1, 'b']], '</ta>',
                  ['kt $', ['n', 1, 'c']]]),
}

# (base, [(file to cut from, i, j, new file name relative to BASE)], balanced?)
CUTS_Q = [
    ('B1', [(MAINNAME, 1, 5, 'x/inc.conf')], True),
    ('B1', [(MAINNAME, 2, 4, 'x/sub/inc.conf')], True),
    ('B1', [(MAINNAME, 5, 8, 'p.conf')], True),
    ('B1', [(MAINNAME, 1, 5, 'x/inc.conf'), ('x/inc.conf', 1, 3, 'x/sub/deep.conf')], True),
    ('B1', [(MAINNAME, 0, 1, 'x/a.conf'), (MAINNAME, 5, 8, 'x/b.conf')], True),
    ('B1', [(MAINNAME, 1, 3, 'x/inc.conf')], False),
    ('B1', [(MAINNAME, 3, 5, 'x/inc.conf')], False),
    ('B1', [(MAINNAME, 0, 9, 'x/all.conf')], True),
    ('B2', [(MAINNAME, 0, 1, 'x/inc.conf')], True),
    ('B2', [(MAINNAME, 1, 3, 'x/inc.conf')], True),
    ('B2', [(MAINNAME, 2, 4, 'p.conf')], True),
    ('B2', [(MAINNAME, 0, 2, 'x/a.conf'), (MAINNAME, 1, 3, 'x/b.conf')], True),
    ('B3', [(MAINNAME, 1, 5, 'x/inc.conf')], True),
    ('B3', [(MAINNAME, 2, 4, 'x/s/inc.conf')], True),
    ('B3', [(MAINNAME, 1, 5, 'x/inc.conf'), ('x/inc.conf', 1, 3, 'q.conf')], True),
    ('B3', [(MAINNAME, 0, 2, 'x/inc.conf')], False),
    ('B4', [(MAINNAME, 3, 6, 'x/inc.conf')], True),
    ('B4', [(MAINNAME, 0, 3, 'x/a.conf'), (MAINNAME, 1, 4, 'x/b.conf')], True),
]
CUTS_Q += [
    ('B5', [(MAINNAME, 1, 2, 'x/k.conf'), (MAINNAME, 5, 6, 'x/k.conf')], True),      # siblings, same resource
    ('B5', [(MAINNAME, 1, 2, 'k.conf'), (MAINNAME, 5, 6, 'k.conf')], True),
]
CUTS_Q += [
    # references spelled with '$$' (a literal dollar in the name) and with percent escapes
    ('B1', [(MAINNAME, 1, 5, 'x/part$1.conf')], True),
    ('B3', [(MAINNAME, 1, 5, 'x/$site/inc.conf'), ('x/$site/inc.conf', 1, 3, 'x/$site/in$a.conf')], True),
    ('B2', [(MAINNAME, 0, 2, 'x/$a.conf')], True),
    ('B1', [(MAINNAME, 1, 5, 'x/my%20dir/inc.conf')], True),
    ('B4', [(MAINNAME, 3, 6, 'caf%C3%A9/f2.conf')], True),
    # a blank / a tab inside the reference: the argument of %include is the whole rest of the line
    ('B1', [(MAINNAME, 1, 5, 'x/my dir/inc.conf')], True),
    ('B4', [(MAINNAME, 3, 6, 'two words.conf')], True),
    ('B3', [(MAINNAME, 1, 5, 'x/a b/inc.conf'), ('x/a b/inc.conf', 1, 3, 'x/a b/c  d.conf')], True),
    # fragment names that differ from an includer further up the chain in letter case only (other resources)
    ('B1', [(MAINNAME, 1, 5, 'x/MAIN.conf')], True),
    ('B1', [(MAINNAME, 1, 5, 'x/inc.conf'), ('x/inc.conf', 1, 3, 'x/Main.Conf')], True),
    ('B3', [(MAINNAME, 1, 5, 'x/sub/inc.conf'), ('x/sub/inc.conf', 1, 3, 'x/sub/INC.conf')], True),
]
CUTS_T = CUTS_Q + [
    ('B1', [(MAINNAME, 1, 8, 'x/inc.conf'), ('x/inc.conf', 1, 3, 'x/i2.conf'), ('x/inc.conf', 3, 6, 'p2.conf')], True),
    ('B1', [(MAINNAME, 8, 9, 'x/tail.conf')], True),
    ('B1', [(MAINNAME, 4, 6, 'x/inc.conf')], False),
    ('B2', [(MAINNAME, 0, 4, 'x/inc.conf'), ('x/inc.conf', 1, 3, 'x/i2.conf')], True),
    ('B2', [(MAINNAME, 3, 4, 'x/inc.conf')], True),
    ('B3', [(MAINNAME, 5, 6, 'x/inc.conf'), (MAINNAME, 6, 7, 'x/tail.conf')], False),
    ('B3', [(MAINNAME, 4, 7, 'x/inc.conf')], False),
    ('B5', [(MAINNAME, 1, 2, 'x/k.conf'), (MAINNAME, 5, 6, 'x/k.conf')], True),
]


def _lit(line):
    if isinstance(line, str):
        return line.strip()
    return ''.join(p if isinstance(p, str) else 'xx' for p in line).strip()


def _delta(line):
    t = _lit(line)
    if t.startswith('</'):
        return -1
    if t.startswith('<') and not t.endswith('/>'):
        return 1
    return 0


def _balanced(lines):
    d = 0
    for l in lines:
        if isinstance(l, str) and l.strip().startswith('%include '):
            continue
        d += _delta(l)
        if d < 0:
            return False
    return d == 0


def ranges(lines):
    """-> (balanced [i, j) ranges, unbalanced ones): a range is balanced when the nesting depth
    never drops below its starting depth and ends where it started"""
    bal, unbal = [], []
    n = len(lines)
    for i in range(n):
        d = 0
        low = 0
        for j in range(i + 1, n + 1):
            d += _delta(lines[j - 1])
            low = min(low, d)
            (bal if (d == 0 and low == 0) else unbal).append((i, j))
    return bal, unbal


PLACES = ['x/f%d.conf', 'x/sub/f%d.conf', 'f%d.conf', 'x/sub/deep/f%d.conf']
PLACE_PAIRS = [(1, 0), (2, 0), (3, 1), (0, 1), (1, 2), (2, 3), (0, 0), (3, 0), (1, 1)]


def generated_cuts(tier):
    """every single balanced cut of every base in every placement; pairs of disjoint cuts and
    cuts nested inside a fragment (placement rotating); a sample of unbalanced cuts"""
    out = []
    for base in sorted(BASES):
        lines = BASES[base][1]
        bal, unbal = ranges(lines)
        for k, (i, j) in enumerate(bal):
            for pl in (PLACES[:3] if tier == 'quick' else PLACES):
                out.append((base, [(MAINNAME, i, j, pl % 0)], True))
        step = 2 if tier == 'quick' else 1
        for k, (i, j) in enumerate(unbal[::step]):
            out.append((base, [(MAINNAME, i, j, PLACES[k % 3] % 0)], False))
        # nested: cut [i2, j2) out of the fragment produced by the first cut
        n = 0
        for (i, j) in bal:
            if j - i < 2:
                continue
            frag = lines[i:j]
            fb, _ = ranges(frag)
            for (i2, j2) in fb:
                if (i2, j2) == (0, j - i):
                    continue
                n += 1
                if tier == 'quick' and n % 3:
                    continue
                f1 = PLACES[n % 4] % 0
                out.append((base, [(MAINNAME, i, j, f1), (f1, i2, j2, PLACES[(n + 1) % 4] % 1)], True))
        # disjoint pairs (second range given in the coordinates after the first cut)
        n = 0
        m = 0
        for a, (i, j) in enumerate(bal):
            for (i2, j2) in bal[a + 1:]:
                if i2 < j:
                    continue
                n += 1
                if tier == 'quick' and n % 4:
                    continue
                m += 1
                sh = (j - i) - 1
                # every ordered pair of placements comes round (the first fragment in another
                # directory than the includer, the second reference relative to the includer)
                p1, p2 = PLACE_PAIRS[m % len(PLACE_PAIRS)]
                out.append((base, [(MAINNAME, i, j, PLACES[p1] % 0),
                                   (MAINNAME, i2 - sh, j2 - sh, PLACES[p2] % 1)], True))
    return out


DANGLING = [
    ('S2', [[MAINNAME, ['kt 5', '%include inc.conf']], ['x/inc.conf', [['<ta ', W('n1'), '>'], ['  ka ', V('v1')]]]]),
    ('S2', [[MAINNAME, ['%include inc.conf', 'kt 5']], ['x/inc.conf', [['<', W('t1'), ' n1>'], '  ka 1']]]),
    ('S4', [[MAINNAME, ['<ta>', '  %include sub/inc.conf', '  ka 1', '</ta>']],
            ['x/sub/inc.conf', ['<tb>', ['  <tc ', W('n1'), '/>']]]]),
    ('S4', [[MAINNAME, ['<ta>', '<tb>', '%include inc.conf', '</tb>', '</ta>']],
            ['x/inc.conf', [['<tc ', W('n1'), '>'], ['kc ', V('v1')]]]]),
    ('S2', [[MAINNAME, ['kt 5', '%include a.conf']], ['x/a.conf', ['%include b.conf']],
            ['x/b.conf', [['<ta ', W('n1'), '>'], '  ka 1']]]),
]


def _rel(from_file, to_file):
    a = from_file.split('/')[:-1]
    b = to_file.split('/')
    while a and b and a[0] == b[0]:
        a.pop(0)
        b.pop(0)
    return '/'.join(['..'] * len(a) + b)


def make_files(base, cuts):
    sid, lines = BASES[base]
    files = {MAINNAME: list(lines)}
    order = [MAINNAME]
    for src, i, j, new in cuts:
        frag = files[src][i:j]
        # a '$' in a reference is written '$$' (the argument of a directive is $-expanded once)
        files[src][i:j] = ['%include ' + _rel(src, new).replace('$', '$$')]
        if new in files:
            # the same fragment file included twice: contents must agree
            assert files[new] == frag
        else:
            files[new] = frag
            order.append(new)
    return sid, [[n, files[n]] for n in order]


# fragments read through the REAL openResource (temp files, utf-8): a line starting with a character
# that a decoder or a line reader might treat specially; the cut starts exactly at that line
REALFILE_STARTS = ['\ufeff', '\u00a0', '\u2028', '\x0c', '\x1c', '\x85', '\ufffe', '#', ' ']
# ... and the characters str.splitlines() treats as line boundaries in the MIDDLE of a value (they are not line
# ends for the reader)
REALFILE_MIDS = ['\u2028', '\u2029', '\x85', '\x0c', '\x0b', '\x1c', '\x1d', '\x1e']


class C06(P.TextMixin, Harness):
    prop = 'C06'
    domain = 'D'
    title = ('differential bounded symbolic execution: the real loader on a text with %include of '
             'in-memory fragments versus the real loader on the inlined text, same symbolic tokens; '
             'equal value trees or both rejected; unbalanced fragments rejected')
    functions = ('ZConfig.cfgparser.ZConfigParser.handle_include', 'ZConfig.loader.ConfigLoader.includeConfiguration',
                 'ZConfig.loader.ConfigLoader._parse_resource', 'ZConfig.url.urljoin', 'ZConfig.cfgparser.',
                 'ZConfig.loader.', 'ZConfig.matcher.')
    stubs = ('BaseLoader.openResource -> in-memory resources (urljoin / normalizeURL run natively on '
             'concrete URLs)',)
    assumptions = (
        '%include arguments are concrete relative references (same directory, sub-directory, parent); '
        'symbolic include arguments and real files are outside (C18)',
        'base texts and cuts are the enumerated ones in vf/harness/c06.py (1-3 cuts, nesting up to 2)',
    )
    expected_classes = ('ok', 'reject')
    nontrivial_rule = 'every completed path'
    step_limit = 60000
    slice_s = 8.0

    @property
    def bounds(self):
        return {t: {'bases': sorted(BASES), 'units': len(self.units(t)),
                    'cuts': 'hand-written list + every single balanced range x placements (same dir, '
                            'sub-directory, parent, two levels down) + nested and disjoint pairs + unbalanced ranges'}
                for t in ('quick', 'thorough')}

    def budget(self, tier):
        return 170 if tier == 'quick' else 1200

    def units(self, tier):
        us = []
        seen = set()
        import json
        # fragments that leave one of their own sections open while the includer is complete: the
        # inlined text is unbalanced too, so nothing but the fragment's own end can refuse it
        for sid, files in DANGLING:
            us.append({'schema': sid, 'files': files, 'balanced': False, 'base': 'dangling'})
        # the includer named by a plain path name instead of a URL (resources served for file:// URLs)
        for base, cuts in (('B1', [(MAINNAME, 1, 5, 'x/inc.conf')]), ('B1', [(MAINNAME, 2, 4, 'x/sub/inc.conf')]),
                           ('B3', [(MAINNAME, 1, 5, 'inc.conf')]), ('B4', [(MAINNAME, 3, 6, 'x/inc.conf')])):
            sid, files = make_files(base, cuts)
            us.append({'schema': sid, 'files': files, 'balanced': True, 'base': base, 'urlstyle': 'path'})
        for i in range(len(REALFILE_STARTS) + len(REALFILE_MIDS)):
            us.append({'schema': 'S2', 'realfile': i, 'files': [], 'balanced': True, 'base': 'realfile'})
        # the includer reached through a symbolic link into another directory: references are relative
        # to the URL the resource was loaded by (the link), not to where the file is stored
        for how in ('abs', 'rel'):
            us.append({'schema': 'S2', 'symlink': how, 'files': [], 'balanced': True, 'base': 'symlink'})
        # ONE ConfigLoader: a first load that fails while the included resource is being read (the
        # fragment is a stray closer), then the real load through the same loader object
        for base, cuts in (('B1', [(MAINNAME, 1, 5, 'x/inc.conf')]), ('B4', [(MAINNAME, 3, 6, 'x/inc.conf')]),
                           ('B3', [(MAINNAME, 1, 5, 'inc.conf')]),
                           ('B1', [(MAINNAME, 1, 5, 'x/inc.conf'), ('x/inc.conf', 1, 3, 'x/sub/in2.conf')])):
            sid, files = make_files(base, cuts)
            us.append({'schema': sid, 'files': files, 'balanced': True, 'base': base, 'retry': True})
        for base, cuts, bal in (CUTS_Q if tier == 'quick' else CUTS_T) + generated_cuts(tier):
            sid, files = make_files(base, cuts)
            # the declared flag must agree with the nesting of every fragment (a hand-written entry
            # once claimed a lone closer to be balanced)
            really = all(_balanced(ls) for n, ls in files[1:])
            if really != bal:
                raise RuntimeError('C06 unit list: balanced flag wrong for %r %r' % (base, cuts))
            u = {'schema': sid, 'files': files, 'balanced': bal, 'base': base}
            k = json.dumps(u, sort_keys=True)
            if k not in seen:
                seen.add(k)
                us.append(u)
        return us

    def inputs(self, eng, unit):
        return self.text_inputs(eng, unit)

    def _xml(self, unit):
        if unit['schema'] == 'I12':
            _c12.ensure_packages()
            return _c12.XML
        return SD_XML if unit['schema'] == 'SD' else XML[unit['schema']]

    def _out(self, r):
        if r[0] == 'ok':
            return ('ok', P.walk(r[1]))
        if r[0] == 'crash':
            return ('crash', r[1])
        return ('reject',)

    def _realfile(self, unit, included):
        """main.conf + inc.conf on disk (temp dir outside /repo and /verif) loaded by path, or the
        inlined text loaded from a string"""
        import io
        import os
        import shutil
        import tempfile
        import ZConfig
        if unit['realfile'] < len(REALFILE_STARTS):
            ch = REALFILE_STARTS[unit['realfile']]
            frag = [ch + 'kt 5', '<ta n1>', '  ka 1', '</ta>']
        else:
            ch = REALFILE_MIDS[unit['realfile'] - len(REALFILE_STARTS)]
            frag = ['kt 5', 'zq a' + ch + 'b c', '<ta n1>', '  ka 1', '  kb x' + ch + '(y)', '</ta>']
        schema = P.load_schema(self._xml(unit))
        try:
            if not included:
                cfg, _ = ZConfig.loadConfigFile(schema, io.StringIO(''.join(l + '\n' for l in ['zz top'] + frag)))
            else:
                d = tempfile.mkdtemp(prefix='vfc06_')
                try:
                    open(os.path.join(d, 'main.conf'), 'w', encoding='utf-8').write('zz top\n%include inc.conf\n')
                    open(os.path.join(d, 'inc.conf'), 'w', encoding='utf-8').write(''.join(l + '\n' for l in frag))
                    cfg, _ = ZConfig.loadConfig(schema, os.path.join(d, 'main.conf'))
                finally:
                    shutil.rmtree(d, ignore_errors=True)
        except ZConfig.ConfigurationError:
            return ('reject',)
        except Exception as e:
            return ('crash', type(e).__name__)
        return ('ok', P.walk(cfg))

    def _symlink(self, unit, included):
        import io
        import os
        import shutil
        import tempfile
        import ZConfig
        frag = ['kt 5', '<ta n1>', '  ka 1', '</ta>']
        schema = P.load_schema(self._xml(unit))
        cwd = os.getcwd()
        d = tempfile.mkdtemp(prefix='vfc06_')
        try:
            if not included:
                cfg, _ = ZConfig.loadConfigFile(schema, io.StringIO(''.join(l + '\n' for l in ['zz top'] + frag)))
            else:
                os.makedirs(os.path.join(d, 'stored'))
                os.makedirs(os.path.join(d, 'enabled'))
                open(os.path.join(d, 'stored', 'main.conf'), 'w').write('zz top\n%include inc.conf\n')
                os.symlink(os.path.join('..', 'stored', 'main.conf'), os.path.join(d, 'enabled', 'main.conf'))
                open(os.path.join(d, 'enabled', 'inc.conf'), 'w').write(''.join(l + '\n' for l in frag))
                # a file of the same name next to the link's target says something else
                open(os.path.join(d, 'stored', 'inc.conf'), 'w').write('kt 6\n')
                if unit['symlink'] == 'abs':
                    cfg, _ = ZConfig.loadConfig(schema, os.path.join(d, 'enabled', 'main.conf'))
                else:
                    os.chdir(d)
                    cfg, _ = ZConfig.loadConfig(schema, os.path.join('enabled', 'main.conf'))
        except ZConfig.ConfigurationError:
            return ('reject',)
        except Exception as e:
            return ('crash', type(e).__name__)
        finally:
            os.chdir(cwd)
            shutil.rmtree(d, ignore_errors=True)
        return ('ok', P.walk(cfg))

    def _retry(self, unit, files, concrete):
        import ZConfig
        import ZConfig.loader
        schema = P.load_schema(self._xml(unit))
        loader = ZConfig.loader.ConfigLoader(schema)
        good = {P.BASE + n: ls for n, ls in files}
        # first attempt: the innermost fragment consists of a stray closer
        bad = dict(good)
        bad[P.BASE + files[-1][0]] = ['</nosuch>']
        with common.env_scope(concrete, {}):
            with P.mem_resources(bad):
                try:
                    loader.loadFile(common.make_file(files[0][1]), P.BASE + files[0][0])
                    return ('first-load-accepted',)
                except ZConfig.ConfigurationError:
                    pass
                except Exception as e:
                    return ('crash', type(e).__name__)
            with P.mem_resources(good):
                try:
                    cfg, h = loader.loadFile(common.make_file(files[0][1]), P.BASE + files[0][0])
                    return ('ok', P.walk(cfg))
                except ZConfig.ConfigurationError:
                    return ('reject',)
                except Exception as e:
                    return ('crash', type(e).__name__)

    def observe(self, unit, inp):
        if 'realfile' in unit:
            return self._realfile(unit, True)
        if 'symlink' in unit:
            return self._symlink(unit, True)
        files = self.text_files(unit, inp)
        if unit.get('retry'):
            return self._retry(unit, files, common.all_concrete(inp))
        if unit.get('urlstyle') == 'path':
            # loadConfigFile(schema, file, url='/m/d/x/main.conf'): includes become file:///m/d/... URLs
            store = {'file:///m/d/' + n: ls for n, ls in files}
            with common.env_scope(common.all_concrete(inp), {}), P.mem_resources(store):
                return self._out(P.run_load(self._xml(unit), files[0][1], url='/m/d/' + files[0][0]))
        return self._out(self.real_load(self._xml(unit), files, common.all_concrete(inp)))

    def expect(self, unit, inp, real):
        if 'realfile' in unit:
            return self._realfile(unit, False)
        if 'symlink' in unit:
            return self._symlink(unit, False)
        if not unit['balanced']:
            return ('reject',)
        files = self.text_files(unit, inp)
        flat = [x[2] for x in self.flatten(files)]
        return self._out(self.real_load(self._xml(unit), [(MAINNAME, flat)], common.all_concrete(inp)))

    def classify(self, unit, real):
        return real[0]


HARNESS = C06()

"""C09 - every standard datatype is a total function honouring its documented contract.

Symbolic: the input string (all lengths <= N per type; domain U for the regex-based types,
domain D where the converter case-maps or classifies arbitrary characters).
Real code: the converter objects of ZConfig.datatypes.stock_datatypes / Registry.get.
Oracle: vf.oracles.dtspec.  E2 (preflight): language equality of the live patterns with
reference regexes for strings of every length."""
import z3

from ..base import Harness
from ..core import deep_eq
from .. import core
from ..symstr import domain_U, domain_D, SymStr
from ..oracles import dtspec as O

U_TYPES = {'basic-key', 'identifier', 'dotted-name', 'dotted-suffix', 'ipaddr-or-hostname',
           'string', 'null'}

LENS = {
    'quick': {'basic-key': 5, 'identifier': 5, 'dotted-name': 5, 'dotted-suffix': 5,
              'boolean': 5, 'integer': 4, 'port-number': 5, 'byte-size': 4, 'time-interval': 4,
              'string-list': 4, 'string': 3, 'null': 3,
              'inet-address': 5, 'inet-binding-address': 4, 'inet-connection-address': 4,
              'socket-address': 4, 'socket-binding-address': 3, 'socket-connection-address': 4,
              'ipaddr-or-hostname': 5, 'registry-name': 7, 'float': 3, 'timedelta': 4},
    'thorough': {'basic-key': 8, 'identifier': 8, 'dotted-name': 8, 'dotted-suffix': 8,
                 'boolean': 6, 'integer': 6, 'port-number': 7, 'byte-size': 6, 'time-interval': 6,
                 'string-list': 6, 'string': 4, 'null': 4,
                 'inet-address': 7, 'inet-binding-address': 6, 'inet-connection-address': 6,
                 'socket-address': 6, 'socket-binding-address': 5, 'socket-connection-address': 6,
                 'ipaddr-or-hostname': 8, 'registry-name': 9, 'float': 6, 'timedelta': 6},
}


# (datatype, concrete prefix, length of the symbolic tail): inputs far beyond the per-type length bounds
LONG = [
    ('ipaddr-or-hostname', '0000:0000:0000:0000:0000:ffff:10.20.30.', 3),       # 40-42 characters, IPv6 with a quad tail
    ('ipaddr-or-hostname', '2001:0DB8:0000:0000:0000:FFFF:192.168.100.2', 2),
    ('ipaddr-or-hostname', '0000:0000:0000:0000:0000:0000:0000:00', 2),          # 39 characters of pure hex groups
    ('ipaddr-or-hostname', '255.255.255.2', 2),
    ('ipaddr-or-hostname', 'a-very-long.host_name.example.or', 2),
    ('timedelta', '999999999d 2', 2),          # every part fits, the total may not
    ('timedelta', '142857142w 6d 14', 3),
    ('timedelta', '-999999999d -', 2),
    ('timedelta', '4w 2d 7h 12m 0.0000', 2),
    ('float', '1797693134862315', 2),
    ('float', '-0.0000000000000000000000', 3),
    ('byte-size', '10737418', 3), ('time-interval', '123456789', 2), ('port-number', '655', 2), ('port-number', '0000000655', 2),
    ('integer', '-12345678901234567890', 2),
    ('inet-address', 'some.host.example.org:80', 2), ('inet-address', '[2001:db8::1]:8', 2),
    ('inet-address', '[2001:DB8::A]:8', 1), ('inet-binding-address', '[FE80::1%eth0]:', 2), ('inet-connection-address', 'Some.Host.Example.ORG:', 2),
    ('inet-binding-address', 'some.host.example.org', 2), ('socket-address', '/var/run/some/socke', 2),
    ('socket-address', '[fe80::1]:80', 1),
    ('basic-key', 'a-rather-long.key_nam', 2), ('identifier', 'a_rather_long_identifie', 2),
    ('dotted-name', 'pkg.sub_pkg.module.nam', 2), ('dotted-suffix', '.sub_pkg.module.nam', 2),
    ('boolean', 'fals', 1), ('boolean', 'tru', 2), ('string-list', 'one two  thre', 2),
]


def _call(f, x):
    """call a converter the way instrumented ZConfig code would (builtins such as `str` as a
    datatype must see the symbolic-aware helper, not the C implementation)"""
    from .. import instr
    if instr.installed():
        return instr._vf_call(f, x)
    return f(x)


def _no_dot(c, i):
    return c != ord('.')


class C09(Harness):
    prop = 'C09'
    title = ('bounded symbolic execution of every stock datatype converter on a fully symbolic '
             'input string against reference contracts; plus unbounded regex-language equality '
             '(z3 regex theory) of the live patterns')
    functions = ('ZConfig.datatypes.',)
    stubs = ('float(str) -> exact rational model (vf.symstr.sym_float); datetime.timedelta -> exact rational model',
             'socket.inet_pton(AF_INET6, s) -> pure-Python RFC 4291 validator '
             '(vf.oracles.dtspec.is_ipv6), cross-checked against the C function on every '
             'replayed witness',)
    assumptions = (
        'per-type length bounds (see bounds); longer strings are outside the bounded claim - except the LONG '
        'units (a concrete prefix of 10-40 characters followed by 1-3 symbolic characters) - and the '
        'regex-based types additionally have an unbounded language-equality proof (E2)',
        'float and timedelta: float() is modelled as the EXACT rational value of the decimal literal and '
        'datetime.timedelta as exact rational arithmetic with CPython\'s NaN / infinity / range errors; binary '
        'rounding is outside the model, values are compared with a tolerance (1e-12 relative, 1 microsecond); '
        'locale and existing-* depend on OS state and are outside the claim',
        'domain D for case-mapping converters excludes characters whose lower() is an ASCII letter '
        'or changes length (KELVIN SIGN, U+0130, ...)',
        "don't-care regions (documentation silent): inet-address strings containing brackets that "
        'are not of the exact form [addr]:port; a colon-less number outside 0..65535 given to an '
        'inet-address; one-character host names for ipaddr-or-hostname',
    )
    expected_classes = ('ok', 'ValueError')
    nontrivial_rule = 'the witness input is non-empty'
    step_limit = 60000
    slice_s = 8.0

    @property
    def bounds(self):
        return {t: {'max_len_per_type': LENS[t]} for t in LENS}

    def budget(self, tier):
        return 170 if tier == 'quick' else 1500

    def reset(self):
        """mutable state hanging off the datatype classes / stock converter objects is put back
        before every path (a memo filled with symbolic terms on one path must not leak into the next;
        on the pristine tree there is none)"""
        import copy
        from ZConfig import datatypes
        snap = self.__dict__.get('_dt_snapshot')
        if snap is None:
            snap = []
            objs = [v for v in vars(datatypes).values() if isinstance(v, type)]
            objs += [v for v in datatypes.stock_datatypes.values() if hasattr(v, '__dict__')]
            for o in objs:
                for k, v in list(vars(o).items()):
                    if isinstance(v, (dict, list, set)) and not k.startswith('__'):
                        snap.append((o, k, copy.copy(v)))
            self.__dict__['_dt_snapshot'] = snap
        for o, k, v in snap:
            cur = vars(o).get(k)
            if isinstance(cur, dict):
                from ..symstr import hash_ok
                with hash_ok():
                    cur.clear()
                    cur.update(v)
            elif isinstance(cur, list):
                cur[:] = v
            elif isinstance(cur, set):
                cur.clear()
                cur.update(v)

    def make_domain(self, unit=None):
        if unit is not None and unit['dt'] in U_TYPES:
            return domain_U()
        return domain_D()

    def units(self, tier):
        us = []
        for dt, n in LENS[tier].items():
            for L in range(n, -1, -1):
                us.append({'dt': dt, 'len': L})
        us.sort(key=lambda u: -u['len'])
        # a converter is a function of its input alone: one regex-based type applied first, another
        # one asked about the SAME string afterwards (shared caches / memos would show here)
        rx = ['basic-key', 'identifier', 'dotted-name', 'dotted-suffix', 'ipaddr-or-hostname']
        for a in rx:
            for b in rx:
                if a != b:
                    for L in ((1, 2, 3) if tier == 'quick' else (1, 2, 3, 4)):
                        us.append({'dt': b, 'len': L, 'first': a})
        # long inputs: a concrete prefix (what makes the input long) followed by a short symbolic tail
        for dt, prefix, n in LONG:
            if tier == 'quick' and n > 2:
                n = 2
            us.append({'dt': dt, 'prefix': prefix, 'len': n})
        return us

    def inputs(self, eng, unit):
        pred = None
        if unit['dt'] == 'registry-name':
            pred = _no_dot
        return {'s': self.sym_str(eng, 's', unit['len'], pred)}

    @staticmethod
    def _input(unit, inp):
        return unit.get('prefix', '') + inp['s']

    def preflight(self, tier):
        from .. import e2
        return e2.check_datatype_languages()

    # ---- real code
    def observe(self, unit, inp):
        from ZConfig import datatypes
        from .. import instr
        s = self._input(unit, inp)
        dt = unit['dt']
        if not isinstance(s, str):
            def stub(af, x):
                if not O.is_ipv6(x):
                    raise OSError('illegal IP address string passed to inet_pton')
                return b''
            instr.INET6['fn'] = stub
        try:
            if dt == 'registry-name':
                try:
                    t = datatypes.Registry().get(s)
                except ValueError:
                    return ('ValueError',)
                for k, v in datatypes.stock_datatypes.items():
                    if v is t:
                        return ('ok', k)
                return ('ok', '?')
            f = datatypes.Registry().get(dt)
            if unit.get('first'):
                try:
                    _call(datatypes.Registry().get(unit['first']), s)
                except (ValueError, TypeError):
                    pass
            try:
                v = _call(f, s)
            except ValueError:
                return ('ValueError',)
            except TypeError:
                return ('TypeError',)
            if dt == 'float':
                kind, val = core.float_parts(v)
                return ('ok', ('fin', core.Approx(val, 0, '1/1000000000000')) if kind == 'fin' else ('nonfinite', kind))
            if dt == 'timedelta':
                if isinstance(v, instr.SymTimedelta):
                    return ('ok', core.Approx(v.total, '1/1000000', '1/1000000000000'))
                import fractions
                return ('ok', core.Approx(fractions.Fraction((v.days * 86400 + v.seconds) * 10 ** 6 + v.microseconds,
                                                             10 ** 6), '1/1000000', '1/1000000000000'))
            if dt.startswith('socket-'):
                import socket
                fam = {socket.AF_UNIX: 'AF_UNIX', socket.AF_INET: 'AF_INET',
                       socket.AF_INET6: 'AF_INET6'}.get(v.family, str(v.family))
                return ('ok', (fam, v.address))
            if dt in O.KEY_NORMALISERS:
                try:
                    v2 = _call(f, v)
                except ValueError:
                    return ('ok', v, ('not-idempotent',))
                return ('ok', v, v2)
            return ('ok', v)
        except Exception as e:
            return ('crash', type(e).__name__)
        finally:
            instr.INET6['fn'] = None

    # ---- oracle
    def expect(self, unit, inp, real):
        s = self._input(unit, inp)
        dt = unit['dt']
        try:
            if dt == 'registry-name':
                try:
                    k = O.basic_key(s)
                except O.Bad:
                    return ('ValueError',)
                from ZConfig import datatypes
                for name in STOCK_NAMES:
                    if k == name:
                        return ('ok', name)
                return ('ValueError',)
            v = O.TABLE[dt](s)
        except O.Bad:
            return ('ValueError',)
        except O.DontCare:
            return ('any',)
        except O.TypeErr:
            return ('TypeError',)
        except O.AnyError:
            return ('any-error',)
        if dt in O.KEY_NORMALISERS:
            return ('ok', v, v)
        return ('ok', v)

    def agree(self, unit, real, exp):
        if exp[0] == 'any':
            return z3.BoolVal(real[0] in ('ok', 'ValueError'))
        if exp[0] == 'any-error':
            return z3.BoolVal(real[0] in ('TypeError', 'ValueError'))
        return deep_eq(real, exp)

    def classify(self, unit, real):
        return real[0]

    def nontrivial(self, unit, inp, real):
        return bool(inp['s'])

    def finding(self, unit, inp, real, exp):
        s = self._input(unit, inp)
        if unit['dt'] == 'ipaddr-or-hostname':
            if ':' in s and s[:1].isalpha() and real[0] == 'ValueError' and exp[0] == 'ok':
                return 'F1'
            if real[0] == 'ok' and exp[0] == 'ValueError' and any(ord(c) > 127 for c in s):
                return 'F11'
        return None


STOCK_NAMES = ['boolean', 'dotted-name', 'dotted-suffix', 'identifier', 'integer', 'float', 'string',
               'string-list', 'null', 'locale', 'port-number', 'basic-key', 'inet-address',
               'inet-binding-address', 'inet-connection-address', 'socket-address',
               'socket-binding-address', 'socket-connection-address', 'ipaddr-or-hostname',
               'existing-directory', 'existing-path', 'existing-file', 'existing-dirpath',
               'byte-size', 'time-interval', 'timedelta']

HARNESS = C09()

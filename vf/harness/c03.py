"""C03 - configuration text is read by the documented line grammar and nothing else.

Symbolic: whole lines (every character over domain D, no newline) and line templates with
symbolic holes.  Real code: cfgparser.ZConfigParser.parse driven with a recording context
(the extension point schemaless uses) and schemaless.loadConfigFile.
Oracle: vf.oracles.linegrammar (index loops, no regexes)."""
import z3

from ..base import Harness
from ..core import deep_eq
from ..oracles import linegrammar as G
from . import common


def _line_units(tier):
    us = []
    if tier == 'quick':
        one = range(0, 7)
        two = [(a, b) for a in range(1, 4) for b in range(1, 4)]
        three = []
    else:
        one = range(0, 9)
        two = [(a, b) for a in range(1, 6) for b in range(1, 6) if a + b <= 9]
        three = [(a, b, c) for a in (2, 3) for b in (2, 3) for c in (2, 3)]
    for L in one:
        us.append([[L]])
    for a, b in two:
        us.append([[a], [b]])
    for t in three:
        us.append([[x] for x in t])
    # templates: directives, sections, substitutions reached through literal prefixes
    T = [
        [['%define ', 3]],
        [['%define ', 1, ' ', 2]],
        [['%define ', 2], ['%define ', 2]],
        [['%define a ', 2], ['%define ', 1, ' ', 2]],
        [['%define ab x$$'], ['k $', 2]],
        [['%define ab x'], [1, ' ${', 2, '}']],
        [['%import ', 3]],
        [['%include ', 3]],
        [['%', 6, ' x']],
        [['%', 7, ' x']],
        [['<', 3, '>'], ['</', 3, '>']],
        [['<', 4, '>'], [2], ['</', 2, '>']],
        [['<', 4, '/>']],
        [['<a>'], ['<', 2, '>'], ['</', 1, '>'], ['</', 1, '>']],
        [['<a>'], ['<', 3, '>'], ['</', 2, '>']],
        [['<a ', 2, '>'], [3], ['</A', 1, '>']],
        [[1, ' ', 3]],
        [['k', 2, 'v', 2]],
        # long lines and longer texts: concrete material around short symbolic stretches
        [['some-long.key_name', 2, 'value with  inner\tblanks and (parentheses) ', 1]],
        [['   <sectiontype-long ', 2, 'name.long_42', 2, '>   '], ['  key.one = x'], ['# c'], [''], ['  </SectionType-Long', 1, '>']],
        [['<a>'], ['  <b n1>'], ['    <c>'], ['      k ', 2], ['    </c>'], ['  </', 1, '>'], ['</a>'], ['tail', 1, 'x y']],
        [['k1 v'], ['k2'], ['<s1/>'], ['<s2 nm/>'], ['%define dd ee'], [2, ' $dd'], ['<t>'], ['</t>'], ['last ', 1]],
        [['<a>'], ['<a>'], ['<a>'], ['<a>'], ['<a>'], ['<a>'], ['k v'], ['</a>'], ['</a>'], ['</a>'], ['</a>'], ['</a>'],
         ['</', 1, '>'], [2]],
    ]
    # every `handle_*` / public method name of the live parser class tried as a directive word
    # (a dispatch by method name would accept more than the three documented directives), and the
    # three directives with every kind of separator
    try:
        from ZConfig.cfgparser import ZConfigParser
        words = sorted(n for n in dir(ZConfigParser) if not n.startswith('__'))
    except Exception:
        words = []
    for w in words:
        w2 = w[7:] if w.startswith('handle_') else w
        if w2 not in ('define', 'import', 'include'):
            T.append([['%' + w2 + ' ', 1, ' ', 1]])
            T.append([['%' + w2 + ' define ', 1, ' ', 1]])
    for d in ('define', 'import', 'include', 'Define', 'INCLUDE'):
        T.append([['%' + d, 1, 'a', 1, 'b']])
    if tier != 'quick':
        T += [
            [['%define ', 5]],
            [['%define ', 2, ' ', 3]],
            [['%define ', 2, ' ', 2], ['%define ', 2, ' ', 2]],
            [['%define ', 2, ' v'], ['k $', 3]],
            [['<', 6, '>']],
            [['<', 5, '>'], ['</', 4, '>']],
            [['<', 3, '>'], ['<', 3, '>'], ['</', 2, '>'], ['</', 2, '>']],
            [['<', 3, '>'], ['<', 3, '/>'], [3], ['</', 2, '>']],
            [['%import ', 5]],
            [['%include ', 5]],
            [['k ', 6]],
        ]
    us += T
    return us


class C03(Harness):
    prop = 'C03'
    domain = 'D'
    title = ('bounded symbolic execution of cfgparser.ZConfigParser (parse, start_section, '
             'end_section, handle_key_value, handle_directive, handle_define/import/include, '
             'replace) and schemaless.loadConfigFile on symbolic lines against an independent '
             'line-grammar reference')
    functions = ('ZConfig.cfgparser.', 'ZConfig.schemaless.', 'ZConfig.substitution.')
    assumptions = (
        'texts of at most 3 lines with at most 9 symbolic characters per line (see bounds); '
        'longer texts and the 40-line random texts of the quantifier are outside the claim',
        'characters range over domain D (all of ASCII plus one representative per non-ASCII '
        'class); characters whose case mapping changes length or depends on context are excluded',
        'lines are separated by \\n only (io.StringIO semantics)',
        'when one line carries several faults of different error classes (a missing name and a '
        'malformed $ construct; a conflicting re-definition whose value does not expand) either '
        'class is accepted',
        'the resource URL is empty, so urljoin returns the %include argument unchanged')
    expected_classes = ('ok', 'syntax', 'subst-syntax', 'notimpl')
    nontrivial_rule = 'the witness text has at least one non-blank, non-comment line'
    step_limit = 40000

    @property
    def bounds(self):
        return {'quick': {'one_line_max': 6, 'two_lines_max': '3+3', 'templates': len(_line_units('quick')) - 7 - 9,
                          'longest_template_lines': 14},
                'thorough': {'one_line_max': 8, 'two_lines_max': 'a+b<=9, each <=5',
                             'three_lines': '2..3 each', 'templates': len(_line_units('thorough')) - 9 - 21 - 8}}

    def budget(self, tier):
        return 170 if tier == 'quick' else 1500

    def units(self, tier):
        us = []
        for specs in _line_units(tier):
            for mode in ('record', 'schemaless'):
                us.append({'lines': specs, 'mode': mode})
        return us

    def inputs(self, eng, unit):
        _, holes = common.build_lines(self, eng, unit['lines'])
        return holes

    def observe(self, unit, inp):
        import ZConfig
        lines = common.assemble(unit['lines'], inp)
        f = common.make_file(lines)
        with common.env_scope(common.all_concrete(inp), {}):
            return self._observe(unit, f)

    def _observe(self, unit, f):
        import ZConfig
        try:
            if unit['mode'] == 'record':
                from ZConfig import cfgparser
                ctx = common.RecordingContext()
                defines = {}
                cfgparser.ZConfigParser(common.Res(f, ''), ctx, defines).parse(common.Sec(ctx.ev, 0))
                return ('ok', ctx.ev, [(k, v) for k, v in defines.items()])
            else:
                from ZConfig import schemaless
                top = schemaless.loadConfigFile(f)
                return ('ok', _struct(top), list(top.imports))
        except ZConfig.ConfigurationSyntaxError:
            return ('syntax',)
        except ZConfig.SubstitutionSyntaxError:
            return ('subst-syntax',)
        except NotImplementedError:
            return ('notimpl',)
        except Exception as e:
            return ('crash', type(e).__name__)

    def expect(self, unit, inp, real):
        lines = common.assemble(unit['lines'], inp)
        r = G.parse(lines, unit['mode'])
        if r[0] == 'ok' and unit['mode'] == 'schemaless':
            t, imports = G.tree(r[1])
            return ('ok', t, imports)
        return r

    def agree(self, unit, real, exp):
        if exp[0] == 'either':
            return z3.BoolVal(real[0] in ('syntax', 'subst-syntax'))
        return deep_eq(real, exp)

    def classify(self, unit, real):
        return real[0]

    def nontrivial(self, unit, inp, real):
        lines = common.assemble(unit['lines'], inp)
        return any(l.strip() and not l.strip().startswith('#') for l in lines)


def _struct(sec):
    return (sec.type, sec.name, [(k, list(v)) for k, v in sec.items()],
            [_struct(x) for x in sec.sections])


HARNESS = C03()

"""C13 - a schema object can be reused indefinitely: loads neither depend on nor alter it.

The operation at each step of a history is a z3 integer (every feasible history is a path):
valid load followed by mutation of every list / dict reachable from the result, valid load,
loads failing at the syntax / matching / conversion / section-datatype stage, load with
'%import', load with overrides.  One schema object serves the whole history; every step's
outcome is compared with the same load against a freshly loaded schema, and a structural
digest of the schema (type names, children, defaults, implementer names) is compared before
and after.  One value token of the text is symbolic as well."""
import io

import z3

from ..base import Harness
from ..core import SymInt, deep_eq
from . import common, pipeline as P
from .c12 import ensure_packages

XML = """<schema>
 <abstracttype name="aa"/>
 <sectiontype name="ta" implements="aa" datatype="vf.dtsupport.picky">
  <key name="ka" default="d"/>
  <multikey name="kl"><default>x</default><default>y</default></multikey>
 </sectiontype>
 <sectiontype name="tb">
  <multikey name="+" attribute="mm" datatype="integer"><default key="da">1</default><default key="da">2</default><default key="db">3</default></multikey>
  <multikey name="kn" datatype="integer"><default>4</default><default>5</default></multikey>
  <key name="kp" datatype="byte-size" default="1kb"/>
 </sectiontype>
 <sectiontype name="tn"/>
 <sectiontype name="tc">
  <multikey name="+" attribute="mq"/>
  <multikey name="kw"/>
  <key name="kv"/>
 </sectiontype>
 <section type="tb" name="*" attribute="sb"/>
 <section type="tc" name="*" attribute="sc"/>
 <section type="tc" name="sq" attribute="sq"/>
 <key name="ki" datatype="integer" default="3"/>
 <key name="ks" datatype="string-list" default="a b"/>
 <multikey name="km"><default>m1</default></multikey>
 <key name="+" attribute="any"><default key="d1">v1</default></key>
 <multisection type="aa" name="*" attribute="xs"/>
</schema>
"""

OPS = {
    0: ('valid+mutate', ['<ta n>', '</ta>'], ()),
    1: ('valid', ['ki 7', '<ta n>', 'kl z', '</ta>', 'km q'], ()),
    2: ('syntax', ['ki 7', '<ta n>', 'kl z'], ()),
    3: ('matching', ['<ta n>', 'nosuch 1', '</ta>'], ()),
    4: ('conversion', ['<ta/>', 'ki x'], ()),
    5: ('section-datatype', ['<ta n>', 'ka bad', '</ta>'], ()),
    6: ('import', ['%import vfq_a', '<pa/>', '<ta/>'], ()),
    7: ('overrides', ['<ta n>', 'kl z', '</ta>'], ('n/kl=o1', 'km=o2', 'zz=o3')),
    8: ('valid+mutate', ['<tb/>'], ()),                      # every default of tb is used
    9: ('valid', ['<tb>', 'zz 9', 'kn 6', '</tb>', '<ta/>'], ()),
    10: ('conversion', ['<tb>', 'zz x', '</tb>'], ()),
    11: ('matching', ['<ta ki>', '</ta>'], ()),             # 'ki' is the name of a key of the container
    12: ('valid', ['<ta m1>', '</ta>', '<ta m2/>', '<tb sb2/>'], ()),
    # components whose datatype names differ in letter case only (the registry belongs to the schema)
    13: ('import', ['%import vfq_c1', '<pq>', 'kq hello', '</pq>'], ()),
    14: ('import', ['%import vfq_c2', '<pr>', 'kq hello', '</pr>'], ()),
    # items WITHOUT defaults left out by the text: what the result holds is the application's to mutate
    15: ('valid+mutate', ['<tc/>'], ()),
    16: ('valid', ['<tc>', 'zq 1', 'kw 2', '</tc>'], ()),
    # an override for ONE entry of a '+' multikey map whose other entries (and this one) have defaults
    17: ('overrides', ['<tb x/>'], ('x/da=9', 'x/kn=7')),
    # a conversion fault on a stock datatype after a component named that datatype by its dotted path
    18: ('import', ['%import vfq_dt', '<pd/>'], ()),
    # the fixed name of a section slot used as a key (a '+' key is declared in the same container)
    19: ('matching', ['sq 1'], ()),
    # a known concrete type that fits no slot of the container (which has a slot of an abstract type)
    20: ('matching', ['<tn/>'], ()),
    # a component whose type EXTENDS a type of the schema that has a '+' key, and declares as its own a key
    # name that earlier loads (16) used as an arbitrary key of the base type
    21: ('import', ['%import vfq_k13', '<pk>', 'zq blue', 'zr red', '</pk>', '<tc>', 'zq 2', '</tc>'], ()),
}


def _own_package():
    import os
    d = ensure_packages()
    p = os.path.join(d, 'vfq_k13')
    if not os.path.isdir(p):
        os.makedirs(p, exist_ok=True)
        open(os.path.join(p, '__init__.py'), 'w').write('')
        open(os.path.join(p, 'component.xml'), 'w').write(
            '<component>\n <sectiontype name="pk" extends="tc" implements="aa">\n  <key name="zq" default="none"/>\n'
            ' </sectiontype>\n</component>\n')


def mutate(v, depth=0):
    """mutate every list and dict reachable from a loaded configuration"""
    from ZConfig.matcher import SectionValue
    if depth > 6:
        return
    if isinstance(v, SectionValue):
        for a in v.getSectionAttributes():
            x = getattr(v, a)
            mutate(x, depth + 1)
            if x is None:
                setattr(v, a, 'MUT')
    elif isinstance(v, list):
        for x in v:
            mutate(x, depth + 1)
        v.append('MUT')
        v.reverse()
    elif isinstance(v, dict):
        for x in list(v.values()):
            mutate(x, depth + 1)
        v['mut'] = 'MUT'
        v.pop('d1', None)


def digest(schema):
    out = []
    for name in sorted(schema.gettypenames()):
        t = schema.gettype(name)
        if t.isabstract():
            out.append((name, 'abstract', t.getsubtypenames()))
        else:
            out.append((name, 'concrete', _children(t)))
    out.append(('<top>', 'schema', _children(schema)))
    return out


def _children(t):
    res = []
    for key, info in t:
        d = info.getdefault() if not info.issection() else None
        res.append((key, info.attribute, type(info).__name__, info.name, info.minOccurs, _plain(d)))
    return res


def _plain(d):
    if d is None:
        return None
    if isinstance(d, dict):
        return [(k, _plain(v)) for k, v in d.items()]
    if isinstance(d, list):
        return [_plain(x) for x in d]
    return getattr(d, 'value', repr(d))


class C13(Harness):
    prop = 'C13'
    domain = 'D'
    title = ('solver-chosen histories of loads against ONE schema object (operation per step = z3 integer), '
             'each step compared with the same load against a fresh schema; structural digest of the schema '
             'before and after')
    functions = ('ZConfig.info.KeyInfo.getdefault', 'ZConfig.info.MultiKeyInfo.getdefault',
                 'ZConfig.matcher.BaseMatcher.finish', 'ZConfig.matcher.BaseMatcher.constuct',
                 'ZConfig.info.createDerivedSchema', 'ZConfig.loader.ConfigLoader.importSchemaComponent',
                 'ZConfig.matcher.', 'ZConfig.info.', 'ZConfig.loader.', 'ZConfig.cmdline.')
    assumptions = (
        'one schema (defaults in lists, a wildcard-key default map, a string-list default, an abstract type, '
        'a section datatype that can fail, items without defaults) and the operations OPS of vf/harness/c13.py; histories up to 3 (quick) / 4 (thorough)',
        'the solver here enumerates a finite history space; only one value token per load is symbolic',
    )
    expected_classes = ('seq',)
    nontrivial_rule = 'every completed path (a distinct history)'
    step_limit = 60000
    slice_s = 10.0

    @property
    def bounds(self):
        return {'quick': {'history_len': 3, 'operations': len(OPS)},
                'thorough': {'history_len': 4, 'operations': len(OPS)}}

    def budget(self, tier):
        return 170 if tier == 'quick' else 1500

    def units(self, tier):
        n = self.bounds[tier]['history_len']
        us = []
        for first in range(len(OPS)):
            us.append({'n': n, 'first': first, 'check': 'outcome'})
            # what an operation does to the schema's description shows right after it: one step shorter
            us.append({'n': max(2, n - 1), 'first': first, 'check': 'digest'})
        return us

    def inputs(self, eng, unit):
        out = {}
        for i in range(1, unit['n']):
            v = eng.fresh_int('op%d' % i)
            eng.assume(z3.And(v >= 0, v < len(OPS)))
            out['op%d' % i] = SymInt(v)
        out['val'] = self.sym_str(eng, 'val', 1, P.value_pred)
        return out

    def _ops(self, unit, inp):
        ops = [unit['first']]
        for i in range(1, unit['n']):
            o = inp['op%d' % i]
            # resolve the symbolic choice to a concrete operation (forks once per value)
            k = 0
            while not (o == k):
                k += 1
            ops.append(k)
        return ops

    def _do(self, schema, op, val, concrete):
        import ZConfig
        name, lines, overrides = OPS[op]
        lines = list(lines)
        if name in ('valid', 'valid+mutate', 'overrides'):
            lines = lines + ['kx' + ' ' + val]       # lands in the wildcard map
        with common.env_scope(concrete, {}):
            try:
                cfg, handler = ZConfig.loadConfigFile(schema, common.make_file(lines), P.MAIN, overrides)
            except ZConfig.ConfigurationError as e:
                # the whole outcome: class AND text of the error (what the user gets to read)
                return ('reject', type(e).__name__, str(e))
            except Exception as e:
                return ('crash', type(e).__name__)
        tree = P.walk(cfg)
        if name == 'valid+mutate':
            mutate(cfg)
        return ('ok', tree)

    def _schema(self):
        import ZConfig
        _own_package()
        return ZConfig.loadSchemaFile(io.StringIO(XML))

    def observe(self, unit, inp):
        concrete = common.all_concrete(inp)
        ops = self._ops(unit, inp)
        schema = self._schema()
        d0 = digest(schema)
        outs = [self._do(schema, op, inp['val'], concrete) for op in ops]
        d1 = digest(schema)
        if unit['check'] == 'digest':
            return ('seq', ops, d0 == d1, _diff(d0, d1))
        return ('seq', ops, outs)

    def expect(self, unit, inp, real):
        concrete = common.all_concrete(inp)
        ops = self._ops(unit, inp)
        if unit['check'] == 'digest':
            return ('seq', ops, True, [])
        outs = [self._do(self._schema(), op, inp['val'], concrete) for op in ops]
        return ('seq', ops, outs)

    def classify(self, unit, real):
        return real[0]

    def finding(self, unit, inp, real, exp):
        if unit['check'] == 'digest' and real[2] is False:
            diff = real[3]
            if diff and all(d[1] == 'abstract' for d in diff):
                return 'F10'
        return None


def _diff(d0, d1):
    return [list(b[:2]) for a, b in zip(d0, d1) if a != b] + [list(x[:2]) for x in d1[len(d0):]]


HARNESS = C13()

"""C01 - a configuration is accepted iff it conforms to the schema.

Symbolic: every key / section-type / section-name token (2 characters over [A-Za-z0-9_.-],
names also 1 character incl. '*' and '+') and every value (1-2 printable characters).
Enumerated: the generated schema family x all balanced line shapes up to the line bound.
Real code: ZConfig.loadConfigFile -> loader -> cfgparser -> matcher -> info -> datatypes.
Oracle: linegrammar (events) + conformance (accept / reject) from the schema description."""
import z3

from ..base import Harness
from ..core import deep_eq
from .. import gen
from ..oracles import linegrammar as G, conformance as CF
from . import common, pipeline as P

FAMILY = gen.family()
VIEWS = {k: gen.View(v) for k, v in FAMILY.items()}
XML = {k: gen.render(v) for k, v in FAMILY.items()}


def shape_units(tier):
    if tier == 'quick':
        shapes = gen.shapes(3)
        extra = ['okc', 'ukc', 'kkk', 'oeec'[:4], 'ufc', 'uec']
        shapes = sorted(set(shapes) | set(s for s in extra if len(s) <= 4))
        schemas = gen.QUICK
    else:
        shapes = gen.shapes(4) + ['uukcc', 'ukukc'[:5], 'oukcc', 'kukck', 'uckuc', 'eeekk']
        schemas = gen.THOROUGH
    us = []
    for sid in schemas:
        for sh in shapes:
            if tier == 'quick' and sid in ('S13', 'S9', 'S7') and len(sh) == 3 and 'e' not in sh:
                # the three most expensive schemas: C02's quick tier explores exactly these units (same
                # schema, shape and token lengths) and asserts accept/reject AND the value tree against the
                # same oracle - they are not run a second time here
                continue
            us.append({'schema': sid, 'shape': sh, 'nlen': 2, 'vlen': 1})
        # one-character names (incl. '*' and '+') on the shapes that have a named header
        for sh in [s for s in shapes if ('o' in s or 'e' in s) and len(s) <= 3]:
            if tier == 'quick' and len(sh) == 3 and sum(sh.count(c) for c in 'oe') > 2:
                continue          # three one-character names at once: thorough tier only
            us.append({'schema': sid, 'shape': sh, 'nlen': 1, 'vlen': 1})
        for sh in ('k', 'kk', 'ukc'):
            us.append({'schema': sid, 'shape': sh, 'nlen': 2, 'vlen': 2})
        if tier == 'quick' and sid in ('S5', 'S7'):
            # a key before / after a section whose type has another key type (S5) or the same key
            # spelling at both levels (S7): 4-line shapes the quick bound otherwise leaves out
            for sh in ('kukc', 'ukck', 'ukkc'):
                us.append({'schema': sid, 'shape': sh, 'nlen': 2, 'vlen': 1})
    return us


class C01(Harness):
    prop = 'C01'
    domain = 'D'
    title = ('bounded symbolic execution of the whole load pipeline (loader, cfgparser, matcher, '
             'info, datatypes) on generated schemas and text skeletons whose tokens are symbolic, '
             'against an independent conformance oracle (accept iff conforming)')
    functions = ('ZConfig.matcher.', 'ZConfig.info.', 'ZConfig.loader.', 'ZConfig.cfgparser.',
                 'ZConfig.datatypes.')
    assumptions = (
        'schemas: the generated family vf/gen.py (8 quick / 12 thorough members); other schemas are '
        'outside the claim',
        'texts: every balanced line shape up to the line bound, tokens of fixed length 2 (names also '
        '1, values 1-2); vocabulary words all have length 2 so a symbolic token covers in-vocabulary, '
        'case-variant and out-of-vocabulary words',
        "don't-care regions (statement silent): a key line spelling the fixed name of a section slot "
        "while a '+' key is declared; a section header that the search order rejects although another "
        "slot fits completely; a required '+' key with keyed defaults and no key in the text",
    )
    expected_classes = ('ok', 'reject')
    nontrivial_rule = 'every completed path (each is a distinct shape of vocabulary matches)'
    step_limit = 60000
    slice_s = 8.0

    @property
    def bounds(self):
        return {'quick': {'schemas': gen.QUICK, 'max_lines': 3, 'extra_shapes_to': 4, 'nesting': 3},
                'thorough': {'schemas': gen.THOROUGH, 'max_lines': 4, 'extra_shapes_to': 5,
                             'nesting': 3}}

    def budget(self, tier):
        return 240 if tier == 'quick' else 1500

    def units(self, tier):
        return shape_units(tier)

    def inputs(self, eng, unit):
        lines, holes = gen.skeleton(unit['shape'])
        return P.make_holes(self, eng, holes, unit['nlen'], unit['vlen'])

    def lines(self, unit, inp):
        lines, _ = gen.skeleton(unit['shape'])
        return P.fill(lines, inp)

    def observe(self, unit, inp):
        r = P.run_load(XML[unit['schema']], self.lines(unit, inp))
        if r[0] == 'ok':
            return ('ok',)
        if r[0] == 'reject':
            return ('reject',)
        return ('crash', r[1])

    def expect(self, unit, inp, real):
        g = G.parse(self.lines(unit, inp), 'record')
        if g[0] != 'ok':
            return ('reject',)
        r = CF.evaluate(VIEWS[unit['schema']], g[1])
        if r[0] == 'ok':
            return ('ok',)
        return r

    def agree(self, unit, real, exp):
        if exp[0] == 'any':
            return z3.BoolVal(real[0] in ('ok', 'reject'))
        return deep_eq(real, exp)

    def classify(self, unit, real):
        return real[0]

    def boundary(self, eng, unit, inp):
        """adversarial witnesses: token equal to another token / to a vocabulary word"""
        out = []
        names = sorted(inp)
        view = VIEWS[unit['schema']]
        keys, types, snames = view.words()
        for i, a in enumerate(names):
            A = inp[a]
            if not hasattr(A, 'cs') or len(A) != 2:
                continue
            for b in names[i + 1:]:
                B = inp[b]
                if hasattr(B, 'cs') and len(B) == 2 and a[0] == b[0]:
                    out.append(z3.And(A.cs[0] == B.cs[0], A.cs[1] == B.cs[1]))
            vocab = {'k': keys, 't': types, 'n': snames}.get(a[0], [])
            for w in vocab[:3]:
                if len(w) == 2:
                    out.append(z3.And(A.cs[0] == ord(w[0].upper()), A.cs[1] == ord(w[1])))
        return out[:8]


HARNESS = C01()

"""C20 (reduced scope) - logger sections produce exactly the configured logging setup, once.

Solver-decided parts:
  * logging_level on fully symbolic strings (name table in any letter case, integers, range)
  * FileHandlerFactory.__init__ option logic with max_size / old_files / interval as z3
    integers and when / delay / encoding / path chosen by z3 booleans / integers
  * log_format_style, syslog_facility, get_or_post on symbolic strings
Finite parts driven through the same engine (the operation at each step is a z3 integer,
every feasible sequence is a path; contents are concrete, handlers are real, temp files):
  * logger / eventlog factories: name, level, propagate, handlers in order, idempotence
  * reopen / close / drop-reference sequences act on exactly the live file handlers
  * classic / format / template / safe-template formats accepted at load time build a
    formatter that formats an ordinary record without raising
Outside: '{' / '$' format *validation* on symbolic format strings, rotation behaviour,
syslog / SMTP / HTTP / NT handlers."""
import gc
import io
import logging
import os
import shutil
import tempfile
import types

import z3

from ..base import Harness
from ..core import SymInt, SymBool, deep_eq
from ..oracles import dtspec

LEVELS = {"critical": 50, "fatal": 50, "error": 40, "warn": 30, "warning": 30, "info": 20,
          "blather": 15, "debug": 10, "trace": 5, "all": 1, "notset": 0}
STYLES = ('classic', 'format', 'template', 'safe-template')
FACILITIES = ("auth", "authpriv", "cron", "daemon", "kern", "lpr", "mail", "news", "security",
              "syslog", "user", "uucp", "local0", "local1", "local2", "local3", "local4", "local5",
              "local6", "local7")

LOG_SCHEMA = """<schema>
  <import package="ZConfig.components.logger"/>
  <multisection type="logger" name="*" attribute="loggers"/>
  <section type="eventlog" name="*" attribute="eventlog"/>
</schema>
"""

FORMATS = [
    ('classic', '%(message)s'), ('classic', '%(levelno)d %(levelname)s %(name)s'),
    ('classic', '%(msecs)03d %(created)f %(relativeCreated)d'), ('classic', '%(asctime)s: %(message)s'),
    ('classic', '%(lineno)x %(process)d %(thread)s %(funcName)s'), ('classic', '%(nosuch)s'),
    ('classic', '%s'), ('classic', '%(message)'), ('classic', 'plain %% text'), ('classic', '%(levelno)s'),
    ('classic', '%(name)r\\n%(module)s\\t%(filename)s'),
    # a backslash directly in front of a documented escape, and escapes next to each other
    ('classic', '%(name)s>\\\\n%(message)s'), ('format', '{name}>\\\\t{message}'), ('template', 'D:\\\\new\\\\${name}\\\\\\n'),
    ('classic', '%(message)s\\n\\n\\t\\\\'), ('format', '{message}\\r\\\\b\\f'), ('safe-template', '$message\\\\\\\\n'),
    ('format', '{message}'), ('format', '{levelno:d} {levelname!r} {name:>10}'), ('format', '{msecs:03.0f}'),
    ('format', '{nosuch}'), ('format', '{}'), ('format', '{0}'), ('format', '{message'), ('format', '{{}} {asctime}'),
    ('template', '${message}'), ('template', '$levelname $name'), ('template', '$nosuch'), ('template', '$$ $message'),
    ('template', '${message'), ('template', '$'),
    ('safe-template', '${message}'), ('safe-template', '$nosuch $message'), ('safe-template', '${message'),
    ('safe-template', '$ $$'),
]

FIELDS = ('name', 'levelno', 'levelname', 'pathname', 'filename', 'module', 'lineno', 'created',
          'asctime', 'msecs', 'relativeCreated', 'thread', 'message', 'process', 'funcName',
          'threadName', 'processName', 'nosuch')


def generated_formats():
    """every record field in every style and spelling, alone and next to the message"""
    out = []
    for f in FIELDS:
        out += [('classic', '%%(%s)s' % f), ('classic', '%%(%s)s|%%(message)s' % f),
                ('format', '{%s}' % f), ('format', '{%s!r}|{message}' % f),
                ('template', '${%s}' % f), ('template', '$%s|$message' % f), ('template', '$%s' % f),
                ('safe-template', '${%s}|${message}' % f), ('safe-template', '$%s|$message' % f),
                ('safe-template', '$%s' % f)]
    out += [('classic', '%(levelno)d %(lineno)5d %(msecs)03d'), ('format', '{levelno:d} {lineno:>5} {msecs:03.0f}'),
            ('template', '$$$levelname ${name}x'), ('safe-template', '$$ $ ${ $levelname')]
    return out


def spec_formats():
    """conversion / presentation types: every numeric and string record field with every conversion of the
    classic style and every presentation type of the format style (what is accepted at load time is
    decided on sample values - it must still render a real record, whose thread id is a large integer
    and whose time fields are floats)"""
    out = []
    fields = ('levelno', 'lineno', 'msecs', 'created', 'relativeCreated', 'thread', 'process', 'name', 'message')
    for f in fields:
        for conv in ('d', 'i', 'o', 'x', 'X', 'e', 'f', 'g', 'c', 'r', 'a', '05d', '.2f', '-6s', '+d', '.3s'):
            out.append(('classic', '%%(%s)%s' % (f, conv)))
        for spec in ('d', '03d', 'x', 'o', 'b', 'c', 'n', 'e', 'f', '.0f', 'g', '%', ',', 's', '>10', '^8.3', '+', '#x'):
            out.append(('format', '{%s:%s}' % (f, spec)))
    return out


FORMATS2 = generated_formats() + spec_formats()
FORMATTERS = (None, 'vf.dtsupport.PlainFormatter')


def ref_render(style, fmt, rec, datefmt=None):
    """independent reference: what a record must look like in the given style
    -> text, or raises when the format cannot render an ordinary record"""
    import string
    for a, b in ((r'\n', '\n'), (r'\t', '\t'), (r'\b', '\b'), (r'\f', '\f'), (r'\r', '\r')):
        fmt = fmt.replace(a, b)
    d = dict(rec.__dict__)
    d['message'] = rec.getMessage()
    uses_time = {'classic': '%(asctime)' in fmt, 'format': '{asctime' in fmt,
                 'template': '$asctime' in fmt or '${asctime}' in fmt,
                 'safe-template': '$asctime' in fmt or '${asctime}' in fmt}[style]
    if uses_time:
        d['asctime'] = logging.Formatter().formatTime(rec, datefmt)
    else:
        d.pop('asctime', None)
    if style == 'classic':
        return fmt % d
    if style == 'format':
        return string.Formatter().vformat(fmt, (), d)
    if style == 'template':
        return string.Template(fmt).substitute(d)
    return string.Template(fmt).safe_substitute(d)


_TMP = {}


def tmpdir():
    d = _TMP.get('d')
    if d is None:
        d = tempfile.mkdtemp(prefix='vfc20_')
        _TMP['d'] = d
        import atexit
        atexit.register(shutil.rmtree, d, True)
    return d


def ref_level(s):
    low = s.lower()
    for name, v in LEVELS.items():
        if low == name:
            return v
    v = dtspec.parse_int(low)
    if v < 0 or v > 50:
        raise dtspec.Bad()
    return v


def ref_filehandler(std, max_size, old_files, when, interval, encoding, delay):
    """-> 'ValueError' | (class name, [(constructor argument, value)]) - what the configured options mean"""
    enc = 'utf-8' if encoding else None
    dl = True if delay else False
    NP = 'NOT-PASSED'
    if std:
        if max_size or old_files or when or delay or encoding:
            return 'ValueError'
        return ('StreamHandler', [])
    if when or max_size or old_files or interval:
        if not old_files:
            return 'ValueError'
        if when:
            if max_size:
                return 'ValueError'
            return ('TimedRotatingFileHandler',
                    [('path', True), ('maxBytes', NP), ('backupCount', old_files), ('when', 'D'),
                     ('interval', interval if interval else 1), ('encoding', enc), ('delay', dl)])
        if max_size:
            return ('RotatingFileHandler',
                    [('path', True), ('maxBytes', max_size), ('backupCount', old_files), ('when', NP),
                     ('interval', NP), ('encoding', enc), ('delay', dl)])
        return 'ValueError'
    return ('FileHandler', [('path', True), ('maxBytes', NP), ('backupCount', NP), ('when', NP), ('interval', NP),
                            ('encoding', enc), ('delay', dl)])


class ArgsBox:
    """class name and constructor arguments of a handler; either is None when it can only be seen by
    building the handler (a factory that is not a functools.partial, on symbolic options).  One fixed JSON
    form, so that the symbolic outcome and the replayed concrete one compare equal as records while
    agree() looks inside"""

    def __init__(self, v, name=None):
        self.v = v
        self.name = name

    def __repr__(self):
        return 'handler'


class C20(Harness):
    prop = 'C20'
    domain = 'D'
    title = ('bounded symbolic execution of logging_level, FileHandlerFactory.__init__ (option logic on z3 '
             'integers / booleans) and the style / facility / method converters; solver-chosen operation '
             'sequences over real logger factories and file handlers on temp files; enumerated formats')
    functions = ('ZConfig.components.logger.datatypes.logging_level',
                 'ZConfig.components.logger.handlers.FileHandlerFactory.__init__',
                 'ZConfig.components.logger.handlers.', 'ZConfig.components.logger.logger.',
                 'ZConfig.components.logger.factory.', 'ZConfig.components.logger.formatter.',
                 'ZConfig.components.logger.loghandler.', 'ZConfig.components.logger.datatypes.')
    assumptions = (
        'REDUCED SCOPE: {-, $- and safe-template format validation on symbolic format strings, actual '
        'rotation, syslog / SMTP / HTTP / NT handlers are outside the claim',
        'the factory / reopen / close / format parts are finite enumerations driven through the engine '
        '(operation chosen by a z3 integer); the solver decides logging_level, the FileHandlerFactory '
        'option logic and the small string converters',
        'logging_level strings up to length 5 (quick) / 7 (thorough); option integers range over all '
        'non-negative integers (z3 Int), not a sample',
    )
    expected_classes = ('ok', 'ValueError')
    nontrivial_rule = 'every completed path'
    step_limit = 40000

    @property
    def bounds(self):
        return {'quick': {'level_len': 5, 'ops_len': 3, 'formats': len(FORMATS) + 2 * len(FORMATS2)},
                'thorough': {'level_len': 7, 'ops_len': 4, 'formats': len(FORMATS) + 2 * len(FORMATS2)}}

    def budget(self, tier):
        return 170 if tier == 'quick' else 900

    def units(self, tier):
        b = self.bounds[tier]
        us = []
        for L in range(b['level_len'], -1, -1):
            us.append({'kind': 'level', 'len': L})
        for pre in ('WARN', 'critica', 'blathe', 'notse'):
            us.append({'kind': 'level', 'len': 1 if len(pre) > 4 else 3, 'prefix': pre})
        us.append({'kind': 'filehandler'})
        for L in range(0, 5):
            us.append({'kind': 'style', 'len': L})
            us.append({'kind': 'method', 'len': L})
            us.append({'kind': 'facility', 'len': L})
        for pre in ('safe-templat', 'templat', 'classi', 'forma', 'local', 'authpri', 'securit', 'PO', 'GE'):
            us.append({'kind': 'pref', 'prefix': pre, 'len': 1 if len(pre) > 4 else 2})
        for i in range(len(FORMATS)):
            us.append({'kind': 'format', 'i': i})
        for i in range(len(FORMATS2)):
            for j in range(len(FORMATTERS)):
                us.append({'kind': 'format', 'i2': i, 'formatter': j})
        for cfg in range(5):
            us.append({'kind': 'ops', 'cfg': cfg, 'n': b['ops_len'] if cfg < 4 else 2})
        us.append({'kind': 'samestream'})
        us.append({'kind': 'retry'})
        for style, fmt in (('classic', '%(nosuch)s %(message)s'), ('format', '{nosuch} {message}'),
                           ('template', '$nosuch $message')):
            us.append({'kind': 'arbitrary-order', 'style': style, 'fmt': fmt})
        for lv in ('-2', '-1', '0', '1', '15', '49', '50', '51', '52', 'WARN', 'Blather', 'nope'):
            us.append({'kind': 'factory', 'level': lv})
        # the same logger name configured by consecutive configurations (process-global logger object)
        us.append({'kind': 'reconf', 'n': 3})
        return us

    def inputs(self, eng, unit):
        k = unit['kind']
        if k in ('level', 'style', 'method', 'facility', 'pref'):
            return {'s': self.sym_str(eng, 's', unit['len'])}
        if k == 'filehandler':
            out = {}
            for n in ('max_size', 'old_files', 'interval'):
                v = eng.fresh_int(n)
                eng.assume(v >= 0)
                out[n] = SymInt(v)
            for n in ('when', 'encoding', 'delay'):
                out[n] = SymBool(eng.fresh_boolvar(n))
            p = eng.fresh_int('path')
            eng.assume(z3.And(p >= 0, p <= 2))
            out['path'] = SymInt(p)
            return out
        if k == 'reconf':
            out = {}
            for i in range(unit['n']):
                out['p%d' % i] = SymBool(eng.fresh_boolvar('p%d' % i))
                v = eng.fresh_int('l%d' % i)
                eng.assume(z3.And(v >= 0, v <= 2))
                out['l%d' % i] = SymInt(v)
            return out
        if k == 'ops':
            out = {}
            for i in range(unit['n']):
                v = eng.fresh_int('op%d' % i)
                eng.assume(z3.And(v >= 0, v <= 3))
                out['op%d' % i] = SymInt(v)
            return out
        return {}

    # ------------------------------------------------------------------ real code
    def observe(self, unit, inp):
        k = unit['kind']
        try:
            if k == 'level':
                from ZConfig.components.logger.datatypes import logging_level
                return self._conv(logging_level, unit.get('prefix', '') + inp['s'])
            if k in ('style', 'method', 'facility', 'pref'):
                from ZConfig.components.logger import formatter, handlers
                s = unit.get('prefix', '') + inp['s']
                if k == 'style':
                    return self._conv(formatter.log_format_style, s)
                if k == 'method':
                    return self._conv(handlers.get_or_post, s)
                if k == 'facility':
                    return self._conv(handlers.syslog_facility, s)
                return ('ok', [self._conv(f, s) for f in (formatter.log_format_style,
                                                          handlers.get_or_post, handlers.syslog_facility)])
            if k == 'filehandler':
                return self._filehandler(inp)
            if k == 'format':
                return self._format(unit)
            if k == 'ops':
                return self._ops(unit, inp)
            if k == 'factory':
                return self._factory(unit)
            if k == 'reconf':
                return self._reconf(unit, inp)
            if k == 'samestream':
                return self._samestream()
            if k == 'retry':
                return self._retry()
            if k == 'arbitrary-order':
                return self._arbitrary_order(unit)
        except Exception as e:
            return ('crash', type(e).__name__, str(e)[:80])

    def _conv(self, f, s):
        try:
            return ('ok', f(s))
        except ValueError:
            return ('ValueError',)

    def _section(self, **kw):
        d = dict(format='%(message)s', dateformat=None, style='classic', formatter=None,
                 arbitrary_fields=False, level=0)
        d.update(kw)
        return types.SimpleNamespace(**d)

    def _filehandler(self, inp):
        from ZConfig.components.logger import handlers
        pi = inp['path']
        if pi == 0:
            path = 'STDOUT'
        elif pi == 1:
            path = 'STDERR'
        else:
            path = os.path.join(tmpdir(), 'fh.log')
        sec = self._section(path=path, max_size=inp['max_size'], old_files=inp['old_files'],
                            when='D' if inp['when'] else None, interval=inp['interval'],
                            encoding='utf-8' if inp['encoding'] else None,
                            delay=True if inp['delay'] else False)
        try:
            f = handlers.FileHandlerFactory(sec)
        except ValueError:
            return ('ValueError',)
        # the public way to get the handler is create_loghandler(); a functools.partial kept in _factory (as the
        # current code does) can be inspected without building anything
        fac = getattr(f, '_factory', None)
        if fac is None:
            fac = f.create_loghandler
        name = getattr(getattr(fac, 'func', None), '__name__', None)
        NP = 'NOT-PASSED'
        if name is not None:
            # a functools.partial: the arguments the handler will be built with (no I/O needed, works on
            # symbolic integers); every configured option must arrive there
            kw = dict(fac.keywords or {})
            pos = list(fac.args[1:])
            args = [('path', fac.args[0] == path if fac.args else kw.get('filename') == path)]
            for nm in ('maxBytes', 'backupCount', 'when', 'interval', 'encoding', 'delay'):
                args.append((nm, kw.get(nm, NP)))
            if pos:
                args = None            # positional spelling: not decoded here, see below
        else:
            args = None
        if args is None:
            # any other kind of factory: build the handler and look at it - only possible on concrete
            # option values (the pristine replay of every path's witness comes through here)
            if not all(isinstance(v, (int, bool, str, type(None))) for v in inp.values()):
                if name is None and pi != 2:
                    h = fac()
                    name = type(h).__name__
                return ('ok', ArgsBox(None, name))
            h = fac()
            name = type(h).__name__
            if pi != 2:
                return ('ok', ArgsBox([], name))
            try:
                when = getattr(h, 'when', NP)
                args = [('path', getattr(h, 'baseFilename', None) == os.path.abspath(path)),
                        ('maxBytes', getattr(h, 'maxBytes', NP)), ('backupCount', getattr(h, 'backupCount', NP)),
                        ('when', when), ('interval', (h.interval // 86400) if when == 'D' else NP),
                        # logging stores io.text_encoding(None) == 'locale' for "no encoding given"
                        ('encoding', None if h.encoding == 'locale' else h.encoding), ('delay', h.delay)]
                if name == 'FileHandler':
                    args[1] = ('maxBytes', NP)
                    args[2] = ('backupCount', NP)
            finally:
                h.close()
                for fn in (path,):
                    try:
                        os.unlink(fn)
                    except OSError:
                        pass
        if name == 'StreamHandler' or pi != 2:
            args = []
        return ('ok', ArgsBox(args, name))

    def _format(self, unit):
        import ZConfig
        style, fmt = FORMATS[unit['i']] if 'i' in unit else FORMATS2[unit['i2']]
        fcls = FORMATTERS[unit.get('formatter', 0)]
        text = '<logger>\n<logfile>\npath STDOUT\ndateformat %%Y|%%H:%%M:%%S\nstyle %s\n%sformat %s\n</logfile>\n</logger>\n' % (
            style, ('formatter %s\n' % fcls) if fcls else '', fmt.replace('$', '$$'))
        schema = ZConfig.loadSchemaFile(io.StringIO(LOG_SCHEMA))
        try:
            cfg, _ = ZConfig.loadConfigFile(schema, io.StringIO(text))
        except ZConfig.ConfigurationError:
            return ('ValueError',)
        except Exception as e:
            return ('ok', 'rejected-with-' + type(e).__name__)
        hf = cfg.loggers[0].handler_factories[0]
        formatter = hf.create_formatter()
        rec = logging.LogRecord('some.logger', logging.WARNING, '/p/file.py', 7, 'message %s', ('arg',), None,
                                func='fn')
        rec.created, rec.msecs, rec.relativeCreated = 1700000000.25, 250.0, 12345.5
        rec.thread, rec.process = 140737353955136, 4194000     # the magnitudes CPython / Linux really produce
        rec2 = logging.makeLogRecord(dict(rec.__dict__))     # a fresh record for the reference
        try:
            out = formatter.format(rec)
        except Exception as e:
            return ('ok', 'FORMAT-RAISED-' + type(e).__name__)
        try:
            want = ref_render(style, fmt, rec2, '%Y|%H:%M:%S')
        except Exception as e:
            return ('ok', 'ACCEPTED-BUT-REFERENCE-CANNOT-RENDER-' + type(e).__name__, out)
        if out != want:
            return ('ok', 'RENDERED-DIFFERENTLY', out, want)
        return ('ok', 'formats', isinstance(out, str))

    def _load_loggers(self, cfgno, level='info'):
        import ZConfig
        d = tmpdir()
        paths = [os.path.join(d, 'ops%d_%d.log' % (cfgno, i)) for i in range(3)]
        handlers = [
            '',
            '<logfile>\npath %s\nlevel warn\n</logfile>\n' % paths[0],
            '<logfile>\npath %s\n</logfile>\n<logfile>\npath STDOUT\nlevel debug\nformat %%(levelname)s-%%(message)s\n</logfile>\n' % paths[0],
            '<logfile>\npath %s\ndelay yes\n</logfile>\n<logfile>\npath %s\nmax-size 1mb\nold-files 2\n</logfile>\n'
            '<logfile>\npath %s\nwhen D\nold-files 1\n</logfile>\n' % (paths[0], paths[1], paths[2]),
            # three sections on standard streams, two of them on the SAME stream, different levels
            '<logfile>\npath STDOUT\nlevel warn\nformat %(message)s\n</logfile>\n<logfile>\npath STDOUT\nlevel debug\nformat A-%(message)s\n</logfile>\n'
            '<logfile>\npath STDERR\nlevel error\nformat %(message)s\n</logfile>\n',
        ][cfgno]
        text = '<logger>\nname vf.c20.n%d\nlevel %s\npropagate no\n%s</logger>\n<eventlog>\nlevel debug\n</eventlog>\n' % (
            cfgno, level, handlers)
        schema = ZConfig.loadSchemaFile(io.StringIO(LOG_SCHEMA))
        cfg, _ = ZConfig.loadConfigFile(schema, io.StringIO(text))
        return cfg, [0, 1, 2, 3, 3][cfgno]

    def _reset_logging(self, name):
        from ZConfig.components.logger import loghandler
        lg = logging.getLogger(name)
        for h in list(lg.handlers):
            lg.removeHandler(h)
            try:
                h.close()
            except Exception:
                pass
        loghandler.closeFiles()
        del loghandler._reopenable_handlers[:]

    def _factory(self, unit):
        import ZConfig
        from ZConfig.components.logger import loghandler
        name = 'vf.c20.n2'
        self._reset_logging(name)
        root = logging.getLogger()
        root_before = list(root.handlers)
        try:
            try:
                cfg, nh = self._load_loggers(2, unit['level'])
            except ZConfig.ConfigurationError:
                return ('ValueError',)
            fac = cfg.loggers[0]
            lg = fac()
            lg2 = fac()
            res = ('ok', lg.name, lg.level, lg.propagate, [type(h).__name__ for h in lg.handlers],
                   [h.level for h in lg.handlers], lg2 is lg, len(lg2.handlers),
                   [h.format(logging.LogRecord('n', 30, 'p', 1, 'hello', (), None)) for h in lg.handlers][1:])
            ev = cfg.eventlog()
            res = res + (ev is root, ev.level)
            return res
        finally:
            self._reset_logging(name)
            for h in list(root.handlers):
                if h not in root_before:
                    root.removeHandler(h)
            root.setLevel(logging.WARNING)

    def _samestream(self):
        """one handler per configured section, in order, each with its own level and format - also when
        several sections name the same standard stream"""
        name = 'vf.c20.n4'
        self._reset_logging(name)
        try:
            cfg, _ = self._load_loggers(4)
            lg = cfg.loggers[0]()
            rec = logging.LogRecord('n', 50, 'p', 1, 'hello', (), None)
            return ('ok', [type(h).__name__ for h in lg.handlers], [h.level for h in lg.handlers],
                    [h.format(rec) for h in lg.handlers])
        finally:
            self._reset_logging(name)

    def _arbitrary_order(self, unit):
        """the same format first in a section with arbitrary-fields on, then with it off: the second
        one must be refused at load time (it names a field ordinary records do not have)"""
        import ZConfig
        schema = ZConfig.loadSchemaFile(io.StringIO(LOG_SCHEMA))
        outs = []
        for arb in ('true', 'false'):
            text = ('<logger>\n<logfile>\npath STDOUT\nstyle %s\narbitrary-fields %s\nformat %s\n</logfile>\n</logger>\n'
                    % (unit['style'], arb, unit['fmt'].replace('$', '$$')))
            try:
                cfg, _ = ZConfig.loadConfigFile(schema, io.StringIO(text))
            except Exception as e:
                outs.append('refused')
                continue
            f = cfg.loggers[0].handler_factories[0].create_formatter()
            try:
                f.format(logging.LogRecord('n', 30, 'p', 1, 'hello', (), None))
                outs.append('formats')
            except Exception as e:
                outs.append('FORMAT-RAISED-' + type(e).__name__)
        return ('ok', outs)

    def _reconf(self, unit, inp):
        """n configurations for ONE logger name, each with its own propagate flag (z3 boolean) and
        level (z3 integer choosing among three spellings); after each factory call the process-global
        logger must show the propagate flag and level of the latest configuration (handlers of
        earlier configurations stay attached: the statement speaks about one factory only)"""
        import ZConfig
        name = 'vf.c20.reconf'
        self._reset_logging(name)
        logging.getLogger(name).propagate = True
        schema = ZConfig.loadSchemaFile(io.StringIO(LOG_SCHEMA))
        out = []
        try:
            for i in range(unit['n']):
                prop = bool(inp['p%d' % i])
                li = inp['l%d' % i]
                lvl = 'debug' if li == 0 else ('WARN' if li == 1 else '35')
                text = '<logger>\nname %s\nlevel %s\n%s<logfile>\npath STDOUT\n</logfile>\n</logger>\n' % (
                    name, lvl, '' if prop else 'propagate no\n')
                cfg, _ = ZConfig.loadConfigFile(schema, io.StringIO(text))
                lg = cfg.loggers[0]()
                out.append((prop, lvl, lg.propagate, lg.level, len(lg.handlers)))
            return ('ok', out)
        finally:
            self._reset_logging(name)
            logging.getLogger(name).propagate = True

    def _retry(self):
        """a factory call that fails at its SECOND handler (the directory of its file does not exist yet), the
        directory is created, the factory is called again; then the files are moved away and reopenFiles()
        must recreate exactly the two configured files, closeFiles() must close both streams"""
        import ZConfig
        from ZConfig.components.logger import loghandler
        name = 'vf.c20.retry'
        self._reset_logging(name)
        d = os.path.join(tmpdir(), 'retry')
        shutil.rmtree(d, ignore_errors=True)
        os.makedirs(d)
        a, b = os.path.join(d, 'a.log'), os.path.join(d, 'late', 'b.log')
        text = ('<logger>\nname %s\nlevel info\npropagate no\n<logfile>\npath %s\n</logfile>\n<logfile>\npath %s\n</logfile>\n</logger>\n'
                % (name, a, b))
        try:
            schema = ZConfig.loadSchemaFile(io.StringIO(LOG_SCHEMA))
            cfg, _ = ZConfig.loadConfigFile(schema, io.StringIO(text))
            fac = cfg.loggers[0]
            try:
                fac()
                first = 'returned'
            except OSError:
                first = 'failed'
            os.makedirs(os.path.dirname(b))
            lg = fac()
            lg.info('one')
            n_handlers = len(lg.handlers)
            for p in (a, b):
                os.rename(p, p + '.1')
            loghandler.reopenFiles()
            lg.info('two')
            recreated = [os.path.exists(p) and 'two' in open(p).read() for p in (a, b)]
            rotated_clean = ['two' not in open(p + '.1').read() for p in (a, b)]
            loghandler.closeFiles()
            still_open = len([h for h in lg.handlers if getattr(h, 'stream', None) is not None and not h.stream.closed])
            return ('ok', first, n_handlers, recreated, rotated_clean, still_open)
        except Exception as e:
            return ('crash', type(e).__name__, str(e)[:80])
        finally:
            self._reset_logging(name)
            shutil.rmtree(d, ignore_errors=True)

    def _ops(self, unit, inp):
        """op 0: call the factory; 1: reopenFiles(); 2: closeFiles(); 3: drop the logger's handlers
        (remove + forget, so they can be collected).  After every step the registry must hold exactly
        the file handlers that are still alive and open-able."""
        from ZConfig.components.logger import loghandler
        name = 'vf.c20.n%d' % unit['cfg']
        self._reset_logging(name)
        trace = []
        try:
            cfg, nfile = self._load_loggers(unit['cfg'])
            fac = cfg.loggers[0]
            for i in range(unit['n']):
                op = inp['op%d' % i]
                if op == 0:
                    if fac is None:
                        trace.append(('call-after-drop', 0))
                        continue
                    lg = fac()
                    trace.append(('call', len(lg.handlers)))
                    lg = None
                elif op == 1:
                    loghandler.reopenFiles()
                    trace.append(('reopen', len([w for w in loghandler._reopenable_handlers if w() is not None])))
                elif op == 2:
                    loghandler.closeFiles()
                    still_open = 0
                    for h in logging.getLogger(name).handlers:
                        st = getattr(h, 'stream', None)
                        if isinstance(h, logging.FileHandler) and st is not None and not st.closed:
                            still_open += 1
                    trace.append(('close', len(loghandler._reopenable_handlers) + 100 * still_open))
                else:
                    # drop every reference to the handlers: logger, factories, configuration
                    lg = logging.getLogger(name)
                    for h in list(lg.handlers):
                        lg.removeHandler(h)
                    h = lg = fac = cfg = None
                    gc.collect()
                    trace.append(('drop', len([w for w in loghandler._reopenable_handlers if w() is not None])))
            return ('ok', trace)
        finally:
            self._reset_logging(name)

    # ------------------------------------------------------------------ oracle
    def expect(self, unit, inp, real):
        k = unit['kind']
        if k == 'level':
            try:
                return ('ok', ref_level(unit.get('prefix', '') + inp['s']))
            except dtspec.Bad:
                return ('ValueError',)
        if k in ('style', 'method', 'facility', 'pref'):
            s = unit.get('prefix', '') + inp['s']
            res = []
            low = s.lower()
            ok = None
            for w in STYLES:
                if low == w:
                    ok = w
            res.append(('ok', ok) if ok is not None else ('ValueError',))
            up = s.upper()
            ok = None
            for w in ('GET', 'POST'):
                if up == w:
                    ok = w
            res.append(('ok', ok) if ok is not None else ('ValueError',))
            ok = None
            for w in FACILITIES:
                if low == w:
                    ok = w
            res.append(('ok', ok) if ok is not None else ('ValueError',))
            if k == 'pref':
                return ('ok', res)
            return res[{'style': 0, 'method': 1, 'facility': 2}[k]]
        if k == 'filehandler':
            r = ref_filehandler(bool(inp['path'] != 2), inp['max_size'], inp['old_files'], inp['when'],
                                inp['interval'], inp['encoding'], inp['delay'])
            return ('ValueError',) if r == 'ValueError' else ('ok', r[0], r[1])
        if k == 'format':
            return ('format-consistent',)
        if k == 'ops':
            return ('ops-consistent',)
        if k == 'reconf':
            return ('reconf-consistent',)
        if k == 'samestream':
            return ('ok', ['StreamHandler'] * 3, [30, 10, 40], ['hello', 'A-hello', 'hello'])
        if k == 'retry':
            return ('ok', 'failed', 2, [True, True], [True, True], 0)
        if k == 'arbitrary-order':
            return ('ok', ['any', 'refused'])
        if k == 'factory':
            lv = unit['level']
            try:
                n = ref_level(lv)
            except dtspec.Bad:
                return ('ValueError',)
            return ('ok', 'vf.c20.n2', n, False, ['FileHandler', 'StreamHandler'], [0, 10], True, 2,
                    ['WARNING-hello'], True, 10)

    def agree(self, unit, real, exp):
        k = unit['kind']
        if k == 'filehandler' and real[0] == 'ok' and exp[0] == 'ok':
            box = real[1]
            # a factory that cannot be inspected without building the handler, on symbolic options: class and
            # arguments are compared on the concrete replay of the path's witness instead
            conds = [z3.BoolVal(True)]
            if box.name is not None:
                conds.append(deep_eq(box.name, exp[1]))
            if box.v is not None:
                conds.append(deep_eq(list(box.v), list(exp[2])))
            return z3.And(conds)
        if k == 'format':
            # accepted at load time => builds a formatter that formats an ordinary record
            if real[0] == 'ValueError':
                return z3.BoolVal(True)
            if real[0] == 'ok' and real[1].startswith('rejected-with-'):
                return z3.BoolVal(True)      # a datatype's own exception passes through (C07)
            return z3.BoolVal(real == ('ok', 'formats', True) or list(real) == ['ok', 'formats', True])
        if k == 'ops':
            return z3.BoolVal(self._ops_ok(unit, real))
        if k == 'arbitrary-order':
            # with arbitrary-fields off: refused at load time, or at least never raising on a record
            return z3.BoolVal(real[0] == 'ok' and not real[1][1].startswith('FORMAT-RAISED'))
        if k == 'reconf':
            if real[0] != 'ok':
                return z3.BoolVal(False)
            want = {'debug': 10, 'WARN': 30, '35': 35}
            return z3.BoolVal(all(st[2] is st[0] and st[3] == want[st[1]] for st in real[1]))
        return deep_eq(real, exp)

    def _ops_ok(self, unit, real):
        if real[0] != 'ok':
            return False
        nfile = [0, 1, 1, 3, 0][unit['cfg']]
        nh = [1, 1, 2, 3, 3][unit['cfg']]     # NullHandler when no handler is configured
        created = False
        alive = 0
        for step in real[1]:
            op, seen = step[0], step[1]
            if op == 'call':
                if not created:
                    created = True
                    alive = nfile
                if seen != nh:
                    return False
            elif op == 'call-after-drop':
                pass
            elif op == 'reopen':
                if seen != alive:
                    return False
            elif op == 'close':
                alive = 0
                if seen != 0:
                    return False
            else:
                alive = 0
                if seen != 0:
                    return False
        return True

    def classify(self, unit, real):
        return real[0]


HARNESS = C20()

"""Shared driver for the properties that run the whole loader pipeline
(loader -> cfgparser -> matcher -> info -> datatypes) on a generated schema and a text
skeleton with symbolic tokens."""
import io

import z3

from .. import gen
from ..dtsupport import Wrapped
from ..symstr import SymStr
from . import common

URL = 'u:/main.conf'

_WORD = None


def word_pred(c, i):
    """token characters: [A-Za-z0-9_.-]"""
    return z3.Or(z3.And(c >= 48, c <= 57), z3.And(c >= 65, c <= 90), z3.And(c >= 97, c <= 122),
                 c == 95, c == 46, c == 45)


def name1_pred(c, i):
    return z3.Or(word_pred(c, i), c == 42, c == 43)


def value_pred(c, i):
    """printable ASCII without '$' (substitution is C04/C05's subject)"""
    return z3.And(c >= 33, c <= 126, c != 36)


def make_holes(h, eng, holes, nlen=2, vlen=1):
    out = {}
    for name, kind in holes:
        if name in out:
            continue
        if kind == 'V':
            out[name] = h.sym_str(eng, name, vlen, value_pred)
        elif kind == 'N' and nlen == 1:
            out[name] = h.sym_str(eng, name, 1, name1_pred)
        else:
            out[name] = h.sym_str(eng, name, 2, word_pred)
    return out


def fill(lines, inp):
    """line templates (parts: literal or (holename, kind)) + hole values -> list of lines"""
    out = []
    for parts in lines:
        line = ''
        for p in parts:
            if isinstance(p, str):
                line = line + p
            else:
                line = line + inp[p[0]]
        out.append(line)
    return out


def walk(v):
    from ZConfig.matcher import SectionValue
    if isinstance(v, Wrapped):
        return ('W', walk(v.value))
    if isinstance(v, SectionValue):
        return ('S', v.getSectionType(), v.getSectionName(),
                [(a, walk(getattr(v, a))) for a in v.getSectionAttributes()])
    if isinstance(v, list):
        return ('L', [walk(x) for x in v])
    if isinstance(v, tuple):
        return ('T',) + tuple(walk(x) for x in v)
    if isinstance(v, dict):
        return ('M', [(k, walk(x)) for k, x in v.items()])
    return v


_SCHEMA_CACHE = {}


def load_schema(xml, cache=False):
    import ZConfig
    if cache and xml in _SCHEMA_CACHE:
        return _SCHEMA_CACHE[xml]
    s = ZConfig.loadSchemaFile(io.StringIO(xml))
    if cache:
        _SCHEMA_CACHE[xml] = s
    return s


def run_load(xml, lines, overrides=(), url=URL, cache_schema=False):
    """-> ('ok', tree, handler) | ('reject', class name, exception) | ('crash', class name, exc)"""
    import ZConfig
    try:
        schema = load_schema(xml, cache_schema)
    except Exception as e:
        # a family schema that does not even load is reported as an outcome, not a harness crash
        return ('crash', 'schema:' + type(e).__name__, e)
    f = common.make_file(lines)
    try:
        cfg, handler = ZConfig.loadConfigFile(schema, f, url, overrides)
    except ZConfig.ConfigurationError as e:
        return ('reject', type(e).__name__, e)
    except Exception as e:
        return ('crash', type(e).__name__, e)
    return ('ok', cfg, handler)


class mem_resources:
    """Serve resources from memory: replaces BaseLoader.openResource (urlopen + read + close +
    decode) by a lookup url -> lines, still going through createResource.  Used identically
    in the engine and in the pristine replay worker; C19 checks the real openResource."""

    def __init__(self, store):
        self.store = store

    def __enter__(self):
        import ZConfig
        import ZConfig.loader as L
        self.L = L
        self.orig = L.BaseLoader.openResource
        store = self.store

        def openResource(loader, url):
            url = str(url)
            if url in store:
                return loader.createResource(common.make_file(store[url]), url)
            raise ZConfig.ConfigurationError('error opening URL %s: not found' % url, url)
        L.BaseLoader.openResource = openResource
        return self

    def __exit__(self, *a):
        self.L.BaseLoader.openResource = self.orig


BASE = 'http://m/d/'
MAIN = BASE + 'main.conf'

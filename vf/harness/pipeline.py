"""Shared driver for the properties that run the whole loader pipeline
(loader -> cfgparser -> matcher -> info -> datatypes) on a generated schema and a text
skeleton with symbolic tokens."""
import io

import z3

from .. import gen
from ..dtsupport import Wrapped, Wrapped2
from ..symstr import SymStr
from . import common

URL = 'u:/main.conf'

_WORD = None


def word_pred(c, i):
    """token characters: [A-Za-z0-9_.-]"""
    return z3.Or(z3.And(c >= 48, c <= 57), z3.And(c >= 65, c <= 90), z3.And(c >= 97, c <= 122),
                 c == 95, c == 46, c == 45)


def name1_pred(c, i):
    return z3.Or(word_pred(c, i), c == 42, c == 43)


def value_pred(c, i):
    """printable ASCII without '$' (substitution is C04/C05's subject)"""
    return z3.And(c >= 33, c <= 126, c != 36)


def make_holes(h, eng, holes, nlen=2, vlen=1):
    out = {}
    for name, kind in holes:
        if name in out:
            continue
        if kind == 'V':
            out[name] = h.sym_str(eng, name, vlen, value_pred)
        elif kind == 'N' and nlen == 1:
            out[name] = h.sym_str(eng, name, 1, name1_pred)
        else:
            out[name] = h.sym_str(eng, name, 2, word_pred)
    return out


def fill(lines, inp):
    """line templates (parts: literal or (holename, kind)) + hole values -> list of lines"""
    out = []
    for parts in lines:
        line = ''
        for p in parts:
            if isinstance(p, str):
                line = line + p
            else:
                line = line + inp[p[0]]
        out.append(line)
    return out


def walk(v):
    from ZConfig.matcher import SectionValue
    if isinstance(v, Wrapped2):
        return ('W2', walk(v.value))
    if isinstance(v, Wrapped):
        return ('W', walk(v.value))
    if isinstance(v, SectionValue):
        return ('S', v.getSectionType(), v.getSectionName(),
                [(a, walk(getattr(v, a))) for a in v.getSectionAttributes()])
    if isinstance(v, list):
        return ('L', [walk(x) for x in v])
    if isinstance(v, tuple):
        return ('T',) + tuple(walk(x) for x in v)
    if isinstance(v, dict):
        return ('M', [(k, walk(x)) for k, x in v.items()])
    if type(v).__module__.startswith('ZConfig.components') and hasattr(v, '__dict__'):
        # factory objects of the shipped components: class and public data attributes
        if _depth[0] > 6:
            return ('O', type(v).__name__)
        _depth[0] += 1
        try:
            items = []
            for a in sorted(vars(v)):
                x = getattr(v, a)
                if a.startswith('_') or callable(x) and not type(x).__module__.startswith('ZConfig'):
                    continue
                if a == 'instance':
                    continue
                items.append((a, walk(x)))
            return ('O', type(v).__name__, items)
        finally:
            _depth[0] -= 1
    if type(v).__module__ in ('logging',) or type(v).__name__ in ('type', 'function'):
        return ('O', getattr(v, '__name__', type(v).__name__))
    return v


_depth = [0]


_SCHEMA_CACHE = {}


def load_schema(xml, cache=False):
    import ZConfig
    if cache and xml in _SCHEMA_CACHE:
        return _SCHEMA_CACHE[xml]
    # the schema has a URL of its own (different from every configuration resource's)
    s = ZConfig.loadSchemaFile(io.StringIO(xml), 'http://m/schemas/family.xml')
    if cache:
        _SCHEMA_CACHE[xml] = s
    return s


def run_load(xml, lines, overrides=(), url=URL, cache_schema=False, final_newline=True):
    """-> ('ok', tree, handler) | ('reject', class name, exception) | ('crash', class name, exc)"""
    import ZConfig
    try:
        schema = load_schema(xml, cache_schema)
    except Exception as e:
        # a family schema that does not even load is reported as an outcome, not a harness crash
        return ('crash', 'schema:' + type(e).__name__, e)
    f = common.make_file(lines, final_newline)
    try:
        cfg, handler = ZConfig.loadConfigFile(schema, f, url, overrides)
    except ZConfig.ConfigurationError as e:
        return ('reject', type(e).__name__, e)
    except Exception as e:
        return ('crash', type(e).__name__, e)
    return ('ok', cfg, handler)


class mem_resources:
    """Serve resources from memory: replaces BaseLoader.openResource (urlopen + read + close +
    decode) by a lookup url -> lines, still going through createResource.  Used identically
    in the engine and in the pristine replay worker; C19 checks the real openResource."""

    def __init__(self, store):
        self.store = store

    def __enter__(self):
        import ZConfig
        import ZConfig.loader as L
        self.L = L
        self.orig = orig = L.BaseLoader.openResource
        store = self.store

        def openResource(loader, url):
            # like the http / file openers, the store ignores a fragment when it opens a URL
            h = url.find('#')
            if h >= 0:
                url = url[:h]
            if isinstance(url, SymStr):
                # engine only: a (partly) symbolic URL produced by the instrumented urljoin
                for k in store:
                    if url == k:
                        return loader.createResource(common.make_file(store[k]), k)
                if url.startswith('http://m/'):
                    raise ZConfig.ConfigurationError('error opening URL: not found', url)
                if url.startswith('package:'):
                    return orig(loader, url)
                # urlopen cannot take a symbolic URL: modelled as "cannot be opened" (URLError)
                from .. import instr
                instr.STUBS_USED.add('urllib.request.urlopen(symbolic URL outside the in-memory store) -> URLError')
                raise ZConfig.ConfigurationError('error opening URL: stub', url)
            url = str(url)
            if url in store:
                return loader.createResource(common.make_file(store[url]), url)
            if not url.startswith('http://m/'):
                return orig(loader, url)        # package: and file: resources stay real
            raise ZConfig.ConfigurationError('error opening URL %s: not found' % url, url)
        L.BaseLoader.openResource = openResource
        return self

    def __exit__(self, *a):
        self.L.BaseLoader.openResource = self.orig


BASE = 'http://m/d/'
MAIN = BASE + 'main.conf'


# ---------------------------------------------------------------------- generic text harness
def _no_nl(c, i):
    return z3.And(c != 10, c != 13)


def name_pred(c, i):
    """substitution-name-ish tokens: [A-Za-z0-9_-]"""
    return z3.Or(z3.And(c >= 48, c <= 57), z3.And(c >= 65, c <= 90), z3.And(c >= 97, c <= 122),
                 c == 95, c == 45)


def dvalue_pred(c, i):
    """printable ASCII including '$'"""
    return z3.And(c >= 33, c <= 126)


def ws_pred(c, i):
    """horizontal whitespace characters of domain D (no line terminators)"""
    return z3.Or(c == 32, c == 9, c == 0xA0, c == 0x2003, c == 0x3000, c == 12, c == 0x1c)


ALLWS = [9, 11, 12, 13, 28, 29, 30, 31, 32, 0x85, 0xA0, 0x2003, 0x3000, 0x2028]


def anyws_pred(c, i):
    """every whitespace character of domain D except the line feed (includes the characters
    str.splitlines treats as line boundaries: VT FF CR FS GS RS NEL LS)"""
    return z3.Or([c == x for x in ALLWS])


HOLE_PREDS = {'w': word_pred, 'v': value_pred, 'x': _no_nl, 'n': name_pred, 'd': dvalue_pred,
              's': ws_pred, 'N': name1_pred, 'S': anyws_pred}


def join_rel(base, rel):
    parts = (base + rel).split('/')
    out = []
    for p in parts:
        if p == '..':
            if out:
                out.pop()
        elif p not in ('.', ''):
            out.append(p)
    return '/'.join(out)


class TextMixin:
    """Units carry 'files': [[name, [line, ...]], ...] (first = top resource).  A line is a
    literal str or a list of parts: literal str, [cls, n] hole (cls in HOLE_PREDS), or
    ['ref', line, part] re-using a hole of the same file, or ['REF', file, line, part]."""

    def text_inputs(self, eng, unit, files_key='files'):
        out = {}
        for fi, (name, lines) in enumerate(unit[files_key]):
            for li, line in enumerate(lines):
                if isinstance(line, str):
                    continue
                for pi, part in enumerate(line):
                    if isinstance(part, (list, tuple)) and part[0] in HOLE_PREDS:
                        if len(part) > 2:
                            nm = 'h_' + part[2]          # named hole, position independent
                            if nm in out:
                                continue
                        else:
                            nm = 'f%dl%dp%d' % (fi, li, pi)
                        out[nm] = self.sym_str(eng, nm, part[1], HOLE_PREDS[part[0]])
        return out

    def text_files(self, unit, inp, files_key='files'):
        res = []
        for fi, (name, lines) in enumerate(unit[files_key]):
            out = []
            for li, line in enumerate(lines):
                if isinstance(line, str):
                    out.append(line)
                    continue
                s = ''
                for pi, part in enumerate(line):
                    if isinstance(part, str):
                        s = s + part
                    elif part[0] == 'ref':
                        s = s + inp['f%dl%dp%d' % (fi, part[1], part[2])]
                    elif part[0] == 'REF':
                        s = s + inp['f%dl%dp%d' % (part[1], part[2], part[3])]
                    elif part[0] == '=':
                        s = s + inp['h_' + part[1]]
                    elif part[0] == '=U':
                        s = s + inp['h_' + part[1]].upper()
                    elif part[0] == '=L':
                        s = s + inp['h_' + part[1]].lower()
                    elif part[0] == '=S':
                        s = s + inp['h_' + part[1]].swapcase()
                    elif len(part) > 2:
                        s = s + inp['h_' + part[2]]
                    else:
                        s = s + inp['f%dl%dp%d' % (fi, li, pi)]
                out.append(s)
            res.append((name, out))
        return res

    @staticmethod
    def flatten(files):
        """textual inlining of literal '%include <rel>' lines -> [(url, local lineno, line)]"""
        d = dict(files)
        flat = []

        def rec(name, depth):
            if depth > 8:
                raise RuntimeError('include cycle in a harness layout')
            base = name.rsplit('/', 1)[0] + '/' if '/' in name else ''
            for i, line in enumerate(d[name]):
                if isinstance(line, str) and line.strip().startswith('%include '):
                    rel = line.strip()[len('%include '):].strip().replace('$$', '$')
                    rec(join_rel(base, rel), depth + 1)
                else:
                    flat.append((BASE + name, i + 1, line))
        rec(files[0][0], 0)
        return flat

    def real_load(self, xml, files, inp_concrete, overrides=(), schema=None, final_newline=True):
        """-> ('ok', cfg, handler) | ('reject', cls, exc) | ('crash', cls, exc)"""
        store = {BASE + n: ls for n, ls in files}
        with common.env_scope(inp_concrete, {}), mem_resources(store):
            return run_load(xml, files[0][1], overrides=overrides, url=BASE + files[0][0],
                            final_newline=final_newline)


def describe_reject(e):
    """exception -> (family, lineno, url, extra)"""
    import ZConfig
    fam = 'config'
    extra = None
    if isinstance(e, ZConfig.DataConversionError):
        fam = 'conversion'
        extra = (e.value, isinstance(e.exception, ValueError))
    elif isinstance(e, ZConfig.SubstitutionSyntaxError):
        fam = 'subst-syntax'
    elif isinstance(e, ZConfig.ConfigurationSyntaxError):
        fam = 'syntax'
    return (fam, getattr(e, 'lineno', None), getattr(e, 'url', None), extra)


def oracle_load(view, flat, want_pos=False):
    """reference outcome for a flattened text:
       ('ok', tree) | ('any',) | ('reject', family, lineno, url, extra)
       family: syntax | subst-syntax | either | conversion | config | unplaced"""
    from ..oracles import linegrammar as G, conformance as CF
    lines = [x[2] for x in flat]
    g = G.parse(lines, 'record', want_lines=True)
    if g[0] != 'ok':
        r = CF.evaluate(view, g[2], g[3], partial=True)
        if r[0] == 'any':
            return ('any',)
        if r[0] == 'ok':
            url, ln, _ = flat[g[1] - 1]
            return ('reject', g[0], ln, url, None)
    else:
        r = CF.evaluate(view, g[1], g[3])
    if r[0] != 'reject':
        return r
    if r[1] is None:
        return ('reject', 'unplaced', None, None, None)
    url, ln, _ = flat[r[1] - 1]
    return ('reject', 'conversion' if r[2] == 'conversion' else 'config', ln, url,
            (r[3], True) if r[2] == 'conversion' else None)


def family_agree(real_fam, exp_fam):
    """error-class family demanded by the oracle vs observed"""
    if exp_fam in ('either',):
        return real_fam in ('syntax', 'subst-syntax')
    if exp_fam == 'unplaced':
        return True
    if exp_fam == 'config':
        # matcher-level faults reach the user as ConfigurationError or, when raised while a
        # line is being read, re-wrapped as ConfigurationSyntaxError
        return real_fam in ('config', 'syntax')
    return real_fam == exp_fam

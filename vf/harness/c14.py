"""C14 - command-line overrides act like editing the addressed keys in the text.

Differential: loadConfigFile(schema, T, overrides=[...]) versus loadConfigFile(schema, T')
where T' is T edited by an independent *text editor* that applies the statement's rule.
T is a concrete accepted text with sections; the override specifiers are symbolic strings
(path components, key and value tokens, and fully symbolic specifiers), so addOption's
'='/'/' splitting and OptionBag's matching by name or type run on symbolic data."""
import z3

from ..base import Harness
from ..core import deep_eq
from ..symstr import char_is, is_space
from ..oracles import dtspec
from .. import gen
from . import common, pipeline as P
from .c01 import VIEWS as _VIEWS01, XML as _XML01
from . import c12

# the C12 schema (abstract slots) with the types of the generated component packages: texts that
# '%import' a package and overrides addressed to sections of an imported type
XML = dict(_XML01)
VIEWS = dict(_VIEWS01)
XML['I12'] = c12.XML
_v = c12.VIEW.clone()
_v.add_component(c12.PACKAGES['vfq_a'])
_v.add_component(c12.PACKAGES['vfq_b'])
VIEWS['I12'] = _v

W2 = ['w', 2]
V1 = ['v', 1]
V2 = ['v', 2]

# texts as structures: ('kv', key, value) | ('sec', type, name|None, [children])
TEXTS = {
    'T2': ('S2', [('kv', 'kt', '5'),
                  ('sec', 'ta', 'n1', [('kv', 'ka', '1'), ('kv', 'kb', 'x'), ('kv', 'KB', 'y')]),
                  ('sec', 'ta', 'n2', [('kv', 'ka', '2')]),
                  ('sec', 'tb', None, [('kv', 'ka', '3'), ('kv', 'kc', 'q')]),
                  ('kv', 'zz', 'top')]),
    'T4': ('S4', [('sec', 'ta', None, [('sec', 'tb', 'b1', [('sec', 'tc', 'c1', [('kv', 'kc', '1')]),
                                                            ('sec', 'tc', 'c2', []),
                                                            ('kv', 'kb', 'v')]),
                                       ('kv', 'ka', 'w')]),
                  ('kv', 'km', '7'), ('kv', 'km', '8')]),
    'T7': ('S6', [('sec', 'ta', 'sa', [('kv', 'ka', 'a')]),
                  ('sec', 'ta', '1r', [('kv', 'ka', 'b')]),
                  ('kv', 'kx', 'x')]),
    'T6': ('S6', [('sec', 'ta', 'sa', [('kv', 'ka', 'a')]),
                  ('sec', 'ta', 'r1', []),
                  ('sec', 'tb', 'sb', [('kv', 'kb', 'b')]),
                  ('kv', 'kx', 'x')]),
}

# texts whose section names (and one key) are symbolic: a name may coincide with another section's
# name or with a type name, so "the first child in file order whose name or type matches" decides
N = lambda i: ['w', 2, i]      # noqa
TEXTS['U2'] = ('S2', [('kv', 'kt', '5'),
                      ('sec', 'ta', N('n1'), [('kv', 'ka', '1'), ('kv', 'kb', 'x')]),
                      ('sec', 'tb', N('n2'), [('kv', 'ka', '2'), ('kv', N('k1'), 'y')]),
                      ('sec', 'ta', N('n3'), [('kv', 'ka', '3')])])
TEXTS['U4'] = ('S4', [('sec', 'ta', N('n1'), [('sec', 'tb', N('n2'), [('sec', 'tc', N('n3'), [('kv', 'kc', '1')]),
                                                                       ('sec', 'tc', N('n4'), []),
                                                                       ('kv', 'kb', 'v')]),
                                              ('kv', 'ka', 'w')])])

# a case-SENSITIVE key type at the top (identifier) and another one in the section type (ipaddr-or-hostname):
# the key component of a specifier is normalised by the addressed section's own key type, nothing else
TEXTS['T5'] = ('S5', [('kv', 'Kc', 'v'), ('kv', 'Ka', 'x'),
                      ('sec', 'ta', 'n1', [('kv', 'h1', '1')]),
                      ('sec', 'ta', 'Kc', [])])
SPECS_K = [
    ('T5', [[W2, '=', V1]]), ('T5', [['Kc=', V1], ['kc=', V1]]), ('T5', [['n1/', W2, '=', V1]]),
    ('T5', [['TA/H1=', V1], ['Ka=y']]), ('T5', [['kC/', W2, '=7']]),
]

# a schema with a schema-level datatype (S14 wraps the whole configuration): the result of a load with
# overrides is what that datatype returns, like without them
TEXTS['T14'] = ('S14', [('kv', 'kx', 'x'), ('sec', 'ta', 'n1', [('kv', 'ka', 'a')]), ('sec', 'tb', 'sb', [('kv', 'kb', 'b')]),
                        ('kv', 'zz', 'any')])
SPECS_K += [('T14', [[W2, '=', V1]]), ('T14', [['n1/ka=', V1], ['sb/kb=q']]), ('T14', [['ta/', W2, '=', V1]])]

# section names that are not basic-keys (a colon, a non-ASCII letter, LONG S whose casefold is not its lower case):
# a path component addresses them by their lower-cased spelling, nothing more
TEXTS['T8'] = ('S2', [('sec', 'ta', 'first', [('kv', 'ka', '0')]),
                      ('sec', 'ta', 'a:b', [('kv', 'ka', '1')]),
                      ('sec', 'ta', 'n\u017f', [('kv', 'ka', '2')]),
                      ('sec', 'ta', '\u00e9b', [('kv', 'ka', '3'), ('kv', 'kb', 'x')])])
SPECS_K += [('T8', [['a:b/ka=', V1]]), ('T8', [['A:B/ka=', V1], ['first/ka=7']]), ('T8', [['n\u017f/ka=', V1]]),
            ('T8', [['N\u017f/ka=', V1]]), ('T8', [['\u00c9B/kb=', V1]]), ('T8', [['ns/ka=', V1]]), ('T8', [['b+c/ka=', V1]])]

# a multikey of a section reached by specifiers that address the section by its TYPE and by its NAME, mixed:
# the values arrive in the order the specifiers were given
TEXTS['T15'] = ('S15', [('sec', 'ta', 'n1', [('kv', 'kl', 'a')]), ('sec', 'ta', 'sa', [])])
SPECS_K += [('T15', [['ta/kl=one'], ['n1/kl=', V1], ['ta/kl=three']]),
            ('T15', [[W2, '/kl=', V1], ['n1/kl=two'], ['TA/kl=3']]),
            ('T15', [['n1/da=1'], ['ta/da=', V1], ['N1/da=3']])]

# '%import' lines are carried as ('raw', line, None) items: rendered verbatim, never edited
TEXTS['I1'] = ('I12', [('raw', '%import vfq_a', None),
                       ('sec', 'pa', 'n1', [('kv', 'ka', '1')]),
                       ('sec', 'ta', None, [('kv', 'ka', '2')]),
                       ('raw', '%import vfq_b', None),
                       ('sec', 'tb', 'n2', [('kv', 'kb', '3')]),
                       ('sec', 'pb', 'n3', []),
                       ('kv', 'kz', 'z')])
SPECS_I = [
    ('I1', [[W2, '/ka=', V1]]), ('I1', [['n2/kb=', V1]]), ('I1', [['pa/ka=', V1], ['PB/kb=7']]),
    ('I1', [['n3/', W2, '=', V1]]), ('I1', [[W2, '/kb=', V1], ['kz=', V1]]),
]

SPECS_U = [
    ('U2', [['ta/ka=', V1]]), ('U2', [['tb/ka=', V1]]), ('U2', [[W2, '/ka=', V1]]),
    ('U2', [['ta/kb=', V1], ['tb/kc=', V1]]), ('U2', [['tb/', W2, '=', V1]]),
    ('U4', [['ta/tb/tc/kc=', V1]]), ('U4', [[W2, '/', W2, '/kb=', V1]]), ('U4', [['ta/tb/', W2, '/kc=', V1]]),
]

SPECS_Q = [
    ('T2', [[W2, '=', V2]]),
    ('T2', [[W2, '/', W2, '=', V1]]),
    ('T2', [['n1/', W2, '=', V2]]),
    ('T2', [[W2, '/ka=', V2]]),
    ('T2', [['TA/kb=', V1], ['ta/KB=', V1]]),
    ('T2', [['tb/', W2, '=', V1], ['zz=', V2]]),
    ('T2', [[['x', 5]]]),
    ('T2', [['n2/ka=', V1], [W2, '/ka=7']]),
    ('T2', [['n1/ka=', V1], ['ta/kb=', V1]]),
    ('T2', [[W2, '/ka=', V1], [W2, '/kb=', V1]]),
    ('T4', [['ta/b1/kb=', V1], ['ta/tb/c1/kc=', V1]]),
    # empty values: 'key=' acts like a bare key line
    ('T2', [['zz=']]), ('T2', [['n1/kb='], ['n1/kb=', V1]]), ('T2', [[W2, '=']]), ('T2', [['n1/ka=']]),
    ('T4', [['km='], ['km=', V1]]),
    ('T4', [['ta/tb/', W2, '=', V1]]),
    ('T4', [[W2, '/', W2, '/', W2, '=1']]),
    ('T4', [['ta/b1/', W2, '/kc=', V1]]),
    ('T4', [['km=', V1], ['km=', V1]]),
    ('T6', [[W2, '/ka=', V1]]),
    ('T6', [['ta/ka=1'], [W2, '/ka=2']]),
    ('T7', [[W2, '/ka=', V1]]),
]
SPECS_T = SPECS_Q + [
    ('T2', [[W2, '/', W2, '=', V2]]),
    ('T2', [[['x', 6]]]),
    ('T2', [[['x', 3], '=', ['x', 2]]]),
    ('T2', [[W2, '/kb=', V1], [W2, '/kb=', V1]]),
    ('T2', [['n1/ka=', V1], ['n2/ka=', V1], ['tb/ka=', V1], ['kt=', V1]]),
    ('T4', [['ta/', W2, '/', W2, '/kc=', V1]]),
    ('T4', [[W2, '/ka=', V2], ['ta/tb/kb=', V2]]),
    ('T6', [[W2, '/', W2, '=', V1]]),
    ('T6', [['sb/kb=', V2], ['kx=', V2]]),
]


def render(struct, ind=''):
    out = []
    for it in struct:
        if it[0] == 'raw':
            out.append(ind + it[1])
        elif it[0] == 'kv':
            out.append(ind + it[1] + ((' ' + it[2]) if len(it[2]) > 0 else ''))
        else:
            hdr = '<' + it[1] + ((' ' + it[2]) if it[2] is not None else '') + '>'
            out.append(ind + hdr)
            out += render(it[3], ind + '  ')
            out.append(ind + '</' + it[1] + '>')
    return out


def _holes(struct):
    out = []
    for it in struct:
        for x in it[1:3]:
            if isinstance(x, list):
                out.append(x)
        if it[0] == 'sec':
            out += _holes(it[3])
    return out


def _inst(struct, inp):
    def v(x):
        return inp['h_' + x[2]] if isinstance(x, list) else x
    return [(it[0], v(it[1]), v(it[2])) + ((_inst(it[3], inp),) if it[0] == 'sec' else ()) for it in struct]


class Refuse(Exception):
    """the specifier is refused when it is added"""


class NoSuch(Exception):
    """addresses a section that is not present"""


def parse_spec(spec):
    """'a/b/key=value' -> ([a, b, key], value); Refuse for no '=' or an empty component"""
    n = len(spec)
    eq = -1
    for i in range(n):
        if char_is(spec[i], '='):
            eq = i
            break
    if eq < 0:
        raise Refuse()
    path = spec[:eq]
    value = spec[eq + 1:]
    comps = []
    start = 0
    for i in range(len(path)):
        if char_is(path[i], '/'):
            comps.append(path[start:i])
            start = i + 1
    comps.append(path[start:])
    for c in comps:
        if len(c) == 0:
            raise Refuse()
    return comps, value


def esc(value):
    """text spelling of a verbatim value: '$' doubled"""
    out = ''
    for ch in value:
        if char_is(ch, '$'):
            out = out + '$$'
        else:
            out = out + ch
    return out


def edit(struct, view, specs):
    """apply the statement's rule; returns the edited structure.  Raises Refuse / NoSuch /
    Inexpressible."""
    # deep copy into mutable lists
    def cp(items):
        return [list(it[:3]) + [cp(it[3])] if it[0] == 'sec' else list(it) for it in items]
    top = cp(struct)
    parsed = [parse_spec(s) for s in specs]          # all specifiers are added first
    dropped = []        # (id of container list, normalised key) already cleared
    for comps, value in parsed:
        cont = top
        contdesc = view.top
        for comp in comps[:-1]:
            low = comp.lower()
            chosen = None
            for it in cont:
                if it[0] != 'sec':
                    continue
                if (it[2] is not None and low == it[2].lower()) or low == it[1]:
                    chosen = it
                    break
            if chosen is None:
                raise NoSuch()
            cont = chosen[3]
            contdesc = view.types[chosen[1]]
        key = comps[-1]
        kt = contdesc['keytype']
        try:
            nkey = dtspec.TABLE[kt](key)
        except dtspec.Bad:
            raise NoSuch()         # not a key this section can have: rejection
        seen = False
        for d in dropped:
            if d[0] is cont and d[1] == nkey:
                seen = True
        if not seen:
            keep = []
            for it in cont:
                if it[0] == 'kv':
                    try:
                        if dtspec.TABLE[kt](it[1]) == nkey:
                            continue
                    except dtspec.Bad:
                        pass
                keep.append(it)
            cont[:] = keep
            dropped.append((cont, nkey))
        if len(value) > 0 and (is_space(value[0]) or is_space(value[len(value) - 1])):
            raise Inexpressible()
        cont.append(['kv', key, esc(value)])
    return top


class Inexpressible(Exception):
    """a verbatim value with surrounding whitespace cannot be written as a text line"""


class C14(P.TextMixin, Harness):
    prop = 'C14'
    domain = 'D'
    title = ('differential bounded symbolic execution: the real loader with symbolic override '
             'specifiers versus the real loader on the text edited by an independent editor that '
             'implements the rule of the statement; equal value trees or both rejected')
    functions = ('ZConfig.cmdline.', 'ZConfig.loader._get_config_loader', 'ZConfig.matcher.',
                 'ZConfig.loader.', 'ZConfig.cfgparser.')
    assumptions = (
        'texts T2, T4, T5 (case-sensitive key types), T6, T7, I1 (concrete; I1 %import-s two generated component packages and has sections of imported types) and U2, U4 (section names and a key symbolic, so names may coincide with '
        'each other or with type names), sections up to depth 3, schemas S2, S4, S6; '
        'override lists of 1-2 (thorough: up to 4) specifiers from the templates in vf/harness/c14.py',
        'override values with leading or trailing whitespace cannot be expressed as a text line and are '
        'excluded (any outcome accepted)',
    )
    expected_classes = ('ok', 'reject')
    nontrivial_rule = 'every completed path'
    step_limit = 60000
    slice_s = 8.0

    @property
    def bounds(self):
        return {'quick': {'spec_lists': len(SPECS_Q)}, 'thorough': {'spec_lists': len(SPECS_T)}}

    def budget(self, tier):
        return 170 if tier == 'quick' else 1200

    def units(self, tier):
        us = [{'text': t, 'files': [['specs', specs]]}
              for t, specs in (SPECS_Q if tier == 'quick' else SPECS_T)]
        for t, specs in SPECS_I + SPECS_K:
            us.append({'text': t, 'files': [['specs', specs]]})
        for t, specs in SPECS_I[:3]:
            us.append({'text': t, 'files': [['specs', specs]], 'same_loader': True})
        for t, specs in SPECS_U:
            us.append({'text': t, 'files': [['specs', specs], ['names', [[h] for h in _holes(TEXTS[t][1])]]]})
        # ONE ExtendedConfigLoader object serving two loads of the text (overrides apply to both)
        for t, specs in SPECS_Q[:6] + SPECS_Q[10:12]:
            us.append({'text': t, 'files': [['specs', specs]], 'same_loader': True})
        return us

    def inputs(self, eng, unit):
        return self.text_inputs(eng, unit)

    def specs(self, unit, inp):
        return self.text_files(unit, inp)[0][1]

    def _out(self, r):
        if r[0] == 'ok':
            return ('ok', P.walk(r[1]))
        if r[0] == 'crash':
            return ('crash', r[1])
        return ('reject', P.describe_reject(r[2])[0])

    def observe(self, unit, inp):
        sid, struct = TEXTS[unit['text']]
        if sid == 'I12':
            c12.ensure_packages()
        struct = _inst(struct, inp)
        with common.env_scope(common.all_concrete(inp), {}):
            if unit.get('same_loader'):
                return self._same_loader(sid, render(struct), self.specs(unit, inp))
            r = P.run_load(XML[sid], render(struct), overrides=self.specs(unit, inp), url=P.MAIN)
        return self._out(r)

    def _same_loader(self, sid, lines, specs):
        """addOption for every specifier, then loadFile twice on the same loader object"""
        import ZConfig
        from ZConfig import cmdline
        schema = P.load_schema(XML[sid])
        outs = []
        try:
            loader = cmdline.ExtendedConfigLoader(schema)
            for sp in specs:
                loader.addOption(sp)
        except ZConfig.ConfigurationError as e:
            return self._out(('reject', type(e).__name__, e))
        except Exception as e:
            return ('crash', type(e).__name__)
        for i in range(2):
            try:
                cfg, h = loader.loadFile(common.make_file(lines), P.MAIN)
                outs.append(self._out(('ok', cfg, h)))
            except ZConfig.ConfigurationError as e:
                outs.append(self._out(('reject', type(e).__name__, e)))
            except Exception as e:
                outs.append(('crash', type(e).__name__))
        if outs[0][0] == 'reject' and outs[1][0] == 'reject':
            return outs[0]
        if outs[0][0] == 'ok' and outs[1][0] == 'ok':
            # both loads must give the same tree; report it once (compared with the edited text)
            from ..core import deep_eq
            import z3 as _z3
            same = deep_eq(outs[0], outs[1])
            if _z3.is_true(_z3.simplify(same)):
                return outs[0]
            return ('two-loads-differ', outs[0], outs[1], same)
        return ('two-loads-differ', outs[0][0], outs[1][0])

    def expect(self, unit, inp, real):
        sid, struct = TEXTS[unit['text']]
        if sid == 'I12':
            c12.ensure_packages()
        struct = _inst(struct, inp)
        try:
            edited = edit(struct, VIEWS[sid], self.specs(unit, inp))
        except Refuse:
            return ('reject', 'syntax')
        except NoSuch:
            return ('reject', 'any')
        except Inexpressible:
            return ('any',)
        with common.env_scope(common.all_concrete(inp), {}):
            r = P.run_load(XML[sid], render(edited), url=P.MAIN)
        o = self._out(r)
        if o[0] == 'reject':
            return ('reject', 'conversion' if o[1] == 'conversion' else 'any')
        return o

    def agree(self, unit, real, exp):
        if exp[0] == 'any':
            return z3.BoolVal(real[0] in ('ok', 'reject'))
        if exp[0] == 'ok':
            return deep_eq(real, exp)
        if real[0] != 'reject':
            return z3.BoolVal(False)
        if exp[1] == 'any':
            return z3.BoolVal(True)
        return z3.BoolVal(real[1] == exp[1])

    def classify(self, unit, real):
        return real[0]

    def finding(self, unit, inp, real, exp):
        # F20: an override addressed (by name or type) to a section of an %import-ed type is refused as
        # 'unknown type name' (syntax error family) although the edited text loads / fails in conversion
        if TEXTS[unit['text']][0] != 'I12' or list(real) != ['reject', 'syntax']:
            return None
        if not (exp[0] == 'ok' or (exp[0] == 'reject' and exp[1] == 'conversion')):
            return None
        imported = set()
        for it in TEXTS[unit['text']][1]:
            if it[0] == 'sec' and it[1] in ('pa', 'pb', 'pc', 'pe'):
                imported.add(it[1])
                if it[2]:
                    imported.add(it[2].lower())
        try:
            specs = self.specs(unit, inp)
            firsts = [str(sp).split('=', 1)[0].split('/')[0].lower() for sp in specs if '/' in str(sp).split('=', 1)[0]]
        except Exception:
            return None
        return 'F20' if any(f in imported for f in firsts) else None


HARNESS = C14()

"""C04 - $-substitution computes exactly the documented replacement function.

Symbolic: the whole source string s, every character over all of Unicode (domain U),
every length 0..N.  Enumerated: a few mappings / environments whose values themselves
contain '$' constructs and whose names collide up to case.
Real code: ZConfig.substitution.substitute / isname (current source, instrumented).
Oracle: vf.oracles.subst.reference (index loops, written from the statement)."""
import os

import z3

from ..base import Harness
from ..core import deep_eq, mk
from ..symstr import SymStr
from ..oracles import subst as O

MAPPINGS = [
    {'a': 'X$y', 'ab': '', '_': '${a}', 'b1': '$$'},
    {'a': '', 'b': '$(A)', '_1': 'v w'},
    {'A': 'UPPER-KEY-NEVER-FOUND', 'a_': '}', 'x': '${', 'xy': 'x$y'},
]
TWICE_ENVS = [{'A': 'one', 'b': ''}, {'A': 'two', 'B': 'x'}]
ENVS = [
    {'a': 'E', 'A': 'e$$', 'B': ''},
    {'A': '$a', 'Ab': 'mixed'},
    {},
]


# (prefix, suffix) around the symbolic stretch of a long source string
LONG = [
    ('path $a/lib:${a}/bin:$$HOME:$(A) -- ', ''),
    ('', ' tail $a ${ab}$b1$$ $(a)$(B) end'),
    ('x$$y ${_}', '}${a}$(A)) (z'),
    ('0123456789 $b1 0123456789 ${', '} 0123456789 $a'),
    ('$(A)$(a)$a$a_', '$_ 9'),
]


class C04(Harness):
    prop = 'C04'
    domain = 'U'
    title = ('bounded symbolic execution of ZConfig.substitution.substitute/_split/isname on a '
             'fully symbolic source string (all lengths <= N, all of Unicode) against an '
             'independent reference; z3 decides every branch and the end-of-path equality')
    functions = ('ZConfig.substitution.',)
    stubs = ('os.getenv -> lookup in the harness environment (replays set the real os.environ)',)
    assumptions = ('source strings longer than the bound are outside the claim',
                   'mappings/environments are the enumerated ones (values contain $ constructs, '
                   'names collide up to case)',
                   'when a text has several simultaneous errors any one of them may be reported '
                   "(the statement does not order them); the name carried by the replacement "
                   'error is compared up to letter case (docstring vs code differ, statement silent)')
    expected_classes = ('ok', 'missing', 'syntax', 'isname-true', 'isname-false')
    bounds = {'quick': {'max_len': 7, 'mappings': 3, 'isname_max_len': 5},
              'thorough': {'max_len': 10, 'mappings': 3, 'isname_max_len': 7}}
    nontrivial_rule = "the path's witness string contains '$' (substitute) or is non-empty (isname)"

    def budget(self, tier):
        return 170 if tier == 'quick' else 1500

    def units(self, tier):
        b = self.bounds[tier]
        us = []
        for L in range(b['max_len'], -1, -1):
            for mi in range(b['mappings']):
                if L > 8 and mi > 0:
                    continue        # the longest strings with the first mapping only
                us.append({'kind': 'subst', 'len': L, 'map': mi})
        for L in range(b['isname_max_len'] + 1):
            us.append({'kind': 'isname', 'len': L})
        # the same text substituted twice in one process under two different environments
        for L in (1, 2, 3):
            us.append({'kind': 'twice', 'len': L})
        # long sources: concrete text with several constructs around a short fully symbolic stretch
        for pre, post in LONG:
            for L in ((1, 2, 3) if tier == 'quick' else (1, 2, 3, 4)):
                us.append({'kind': 'subst', 'len': L, 'map': 0, 'pre': pre, 'post': post})
        return us

    def inputs(self, eng, unit):
        return {'s': self.sym_str(eng, 's', unit['len'])}

    @staticmethod
    def _source(unit, inp):
        return unit.get('pre', '') + inp['s'] + unit.get('post', '')

    # -- real code
    def observe(self, unit, inp):
        import ZConfig
        from ZConfig import substitution
        s = self._source(unit, inp)
        if unit['kind'] == 'isname':
            try:
                r = substitution.isname(s)
            except Exception as e:
                return ('crash', type(e).__name__)
            return ('isname-true',) if r else ('isname-false',)
        if unit['kind'] == 'twice':
            t = '$(' + s[:1] + ')' + s[1:]
            u0 = dict(unit, kind='subst', map=0)
            a = self._subst(t, dict(MAPPINGS[0]), TWICE_ENVS[0])
            b = self._subst(t, dict(MAPPINGS[0]), TWICE_ENVS[1])
            return ('ok', a, b)
        return self._subst(s, dict(MAPPINGS[unit['map']]), ENVS[unit['map']])

    def _subst(self, s, mapping, env):
        import ZConfig
        from ZConfig import substitution
        from .. import instr
        concrete = isinstance(s, str)
        if concrete:
            saved = dict(os.environ)
            os.environ.clear()
            os.environ.update(env)
        else:
            instr.ENV['map'] = env
        try:
            try:
                r = substitution.substitute(s, mapping)
                return ('ok', r)
            except ZConfig.SubstitutionReplacementError as e:
                return ('missing', e.name, e.source)
            except ZConfig.SubstitutionSyntaxError:
                return ('syntax',)
            except Exception as e:
                return ('crash', type(e).__name__)
        finally:
            if concrete:
                os.environ.clear()
                os.environ.update(saved)
            else:
                instr.ENV['map'] = None

    # -- oracle
    def expect(self, unit, inp, real):
        s = self._source(unit, inp)
        if unit['kind'] == 'isname':
            return ('isname-true',) if O.isname(s) else ('isname-false',)
        if unit['kind'] == 'twice':
            t = '$(' + s[:1] + ')' + s[1:]
            out = []
            for env in TWICE_ENVS:
                r = O.reference(t, MAPPINGS[0], env, lambda x: x.lower())
                out.append(('error', r[1], r[2], t) if r[0] == 'error' else r)
            return ('ok', out[0], out[1])
        r = O.reference(s, MAPPINGS[unit['map']], ENVS[unit['map']], lambda x: x.lower())
        if r[0] == 'error':
            return ('error', r[1], r[2], s)
        return r

    def agree(self, unit, real, exp):
        if unit['kind'] == 'twice':
            if real[0] != 'ok':
                return z3.BoolVal(False)
            return z3.And(self._agree1(real[1], exp[1]), self._agree1(real[2], exp[2]))
        return self._agree1(real, exp)

    def _agree1(self, real, exp):
        if exp[0] != 'error':
            return deep_eq(real, exp)
        _, syntax_ok, names, s = exp
        if real[0] == 'syntax':
            return z3.BoolVal(bool(syntax_ok))
        if real[0] == 'missing':
            # the name of an environment variable must be carried as written (its case is significant);
            # for a definition the statement does not say which spelling the error carries
            alts = [deep_eq(real[1], n) if exact else deep_eq(real[1].lower(), n.lower()) for n, exact in names]
            if not alts:
                return z3.BoolVal(False)
            return z3.And(z3.Or(alts), deep_eq(real[2], s))
        return z3.BoolVal(False)

    def classify(self, unit, real):
        return real[0]

    def nontrivial(self, unit, inp, real):
        return ('$' in unit.get('pre', '') + inp['s'] + unit.get('post', '')) if unit['kind'] == 'subst' else bool(inp['s'])

    def boundary(self, eng, unit, inp):
        # adversarial witnesses: the string equals / contains a mapping key
        s = inp['s']
        out = []
        if unit['kind'] == 'twice' and len(s) >= 1:
            for ch in 'ABab':
                out.append(s.cs[0] == ord(ch))
        if unit['kind'] == 'subst' and len(s) >= 2:
            cs = s.cs
            out.append(z3.And(cs[0] == ord('$'), cs[1] == ord('a')))
            out.append(z3.And(cs[0] == ord('$'), cs[1] == ord('A')))
        return out


HARNESS = C04()

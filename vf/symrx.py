"""SymRx: interprets the *live* pattern string (parsed with the interpreter's own sre parser)
as a backtracking matcher in Python's priority order; each character test is a z3 Bool
decided through the engine.  Implements match semantics (group()/end()), not language
membership.  Supported subset = what ZConfig's patterns use; anything else -> Unsupported.
"""
import re
import re._constants as sc
import re._parser as sre_parse

import z3

from . import core
from .core import Unsupported, mk, tobool, zand, zor, znot
from .symstr import SymStr, chars_of, ceq, simp

_real_compile = re.compile


_SET_CACHE = {}
_CAT_SRC = {sc.CATEGORY_SPACE: r'\s', sc.CATEGORY_NOT_SPACE: r'\S', sc.CATEGORY_DIGIT: r'\d',
            sc.CATEGORY_NOT_DIGIT: r'\D', sc.CATEGORY_WORD: r'\w', sc.CATEGORY_NOT_WORD: r'\W'}


def _esc(c):
    return '\\U%08x' % c


def set_source(items):
    """pattern text of a character class equivalent to the parsed item list"""
    out = '['
    body = ''
    for op, av in items:
        if op is sc.NEGATE:
            out += '^'
        elif op is sc.LITERAL:
            body += _esc(av)
        elif op is sc.RANGE:
            body += _esc(av[0]) + '-' + _esc(av[1])
        elif op is sc.CATEGORY and av in _CAT_SRC:
            body += _CAT_SRC[av]
        else:
            raise Unsupported('regex class item %s %s' % (op, av))
    return out + body + ']'


def matched_ranges(src, flags, dom):
    """the code points of the domain that the one-character pattern `src` matches under `flags`,
    found by asking the interpreter's own regex engine about every code point (so Unicode case
    folding and the \\w tables are exactly the running interpreter's)"""
    from .symstr import _ranges
    key = (src, flags, dom.name)
    r = _SET_CACHE.get(key)
    if r is None:
        rx = _real_compile(src, flags)
        m = rx.match
        universe = range(0x110000) if dom.full else dom.members
        r = _ranges([c for c in universe if not (0xD800 <= c <= 0xDFFF) and m(chr(c))])
        _SET_CACHE[key] = r
    return r


def needs_table(items, ic):
    if ic:
        return True
    for op, av in items:
        if op is sc.CATEGORY and av in (sc.CATEGORY_WORD, sc.CATEGORY_NOT_WORD):
            return True
    return False


def table_pred(src, flags, c, dom):
    from .symstr import _in_ranges
    rs = matched_ranges(src, flags, dom)
    if isinstance(c, int):
        return z3.BoolVal(any(lo <= c <= hi for lo, hi in rs))
    return _in_ranges(c, rs)


def annotate(nodes, ic):
    """parse tree -> list of (op, av, ignorecase) with nested sequences annotated too"""
    out = []
    for op, av in nodes:
        if op is sc.SUBPATTERN:
            gid, add_flags, del_flags, sub = av
            extra = (add_flags | del_flags) & ~(re.IGNORECASE | re.UNICODE)
            if extra:
                raise Unsupported('inline regex flags %s' % extra)
            ic2 = (ic or bool(add_flags & re.IGNORECASE)) and not (del_flags & re.IGNORECASE)
            out.append((op, (gid, 0, 0, annotate(sub, ic2)), ic))
        elif op is sc.BRANCH:
            out.append((op, (av[0], [annotate(a, ic) for a in av[1]]), ic))
        elif op in (sc.MAX_REPEAT, sc.MIN_REPEAT):
            out.append((op, (av[0], av[1], annotate(av[2], ic)), ic))
        else:
            out.append((op, av, ic))
    return out


def class_pred(items, c, dom):
    neg = False
    alts = []
    for op, av in items:
        if op is sc.NEGATE:
            neg = True
        elif op is sc.LITERAL:
            alts.append(ceq(c, av))
        elif op is sc.RANGE:
            alts.append(z3.And(c >= av[0], c <= av[1]) if not isinstance(c, int)
                        else z3.BoolVal(av[0] <= c <= av[1]))
        elif op is sc.CATEGORY:
            if av is sc.CATEGORY_SPACE:
                alts.append(tobool(dom.is_space(c)))
            elif av is sc.CATEGORY_NOT_SPACE:
                alts.append(znot(tobool(dom.is_space(c))))
            elif av is sc.CATEGORY_DIGIT:
                alts.append(tobool(dom.is_digit(c)))
            elif av is sc.CATEGORY_NOT_DIGIT:
                alts.append(znot(tobool(dom.is_digit(c))))
            else:
                raise Unsupported('regex category %s' % av)
        else:
            raise Unsupported('regex class item %s' % op)
    p = zor(alts)
    return znot(p) if neg else p


class SymMatch:
    def __init__(self, s, start, end, groups, names, ngroups):
        self.s, self.start_, self.end_, self.g, self.names = s, start, end, groups, names
        self.ngroups = ngroups

    def end(self, g=0):
        if g == 0:
            return self.end_
        sp = self.g.get(self._gid(g))
        return -1 if sp is None else sp[1]

    def start(self, g=0):
        if g == 0:
            return self.start_
        sp = self.g.get(self._gid(g))
        return -1 if sp is None else sp[0]

    def span(self, g=0):
        return self.start(g), self.end(g)

    def _gid(self, i):
        if isinstance(i, str):
            return self.names[i]
        return i

    def group(self, *ids):
        if not ids:
            ids = (0,)
        out = []
        for i in ids:
            i = self._gid(i)
            if i == 0:
                out.append(self.s[self.start_:self.end_])
            else:
                sp = self.g.get(i)
                out.append(None if sp is None else self.s[sp[0]:sp[1]])
        return out[0] if len(out) == 1 else tuple(out)

    def groups(self, default=None):
        return tuple(self.group(i) if self.g.get(i) is not None else default
                     for i in range(1, self.ngroups + 1))

    def __bool__(self):
        return True


class SymRx:
    def __init__(self, pattern, flags=0):
        self.pattern = pattern
        self.tree = sre_parse.parse(pattern, flags)
        allf = self.tree.state.flags
        if allf & ~(re.IGNORECASE | re.UNICODE):
            raise Unsupported('regex flags %s' % allf)
        self.nodes = annotate(self.tree, bool(allf & re.IGNORECASE))
        self.names = dict(self.tree.state.groupdict)
        self.ngroups = self.tree.state.groups - 1

    def match(self, s, pos=0, _full=False):
        dom = core.ENG.domain
        if isinstance(s, str):
            s = SymStr(chars_of(s))
        cs = s.cs
        n = len(cs)

        def test(pred):
            return mk(pred)

        def m(nodes, i, p, groups, k):
            if i == len(nodes):
                return k(p, groups)
            op, av, ic = nodes[i]
            if op is sc.LITERAL:
                pr = table_pred(_esc(av), re.IGNORECASE, cs[p], dom) if (ic and p < n) else None
                if p < n and test(pr if ic else ceq(cs[p], av)):
                    return m(nodes, i + 1, p + 1, groups, k)
                return None
            if op is sc.NOT_LITERAL:
                pr = znot(table_pred(_esc(av), re.IGNORECASE, cs[p], dom)) if (ic and p < n) else None
                if p < n and test(pr if ic else znot(ceq(cs[p], av))):
                    return m(nodes, i + 1, p + 1, groups, k)
                return None
            if op is sc.ANY:
                if p < n and test(znot(ceq(cs[p], 10))):
                    return m(nodes, i + 1, p + 1, groups, k)
                return None
            if op is sc.IN:
                if p < n:
                    if needs_table(av, ic):
                        pr = table_pred(set_source(av), re.IGNORECASE if ic else 0, cs[p], dom)
                    else:
                        pr = class_pred(av, cs[p], dom)
                    if test(pr):
                        return m(nodes, i + 1, p + 1, groups, k)
                return None
            if op is sc.AT:
                if av is sc.AT_END:
                    ok = p == n or (p == n - 1 and test(ceq(cs[p], 10)))
                    return m(nodes, i + 1, p, groups, k) if ok else None
                if av is sc.AT_BEGINNING:
                    return m(nodes, i + 1, p, groups, k) if p == 0 else None
                if av is sc.AT_END_STRING:
                    return m(nodes, i + 1, p, groups, k) if p == n else None
                if av is sc.AT_BEGINNING_STRING:
                    return m(nodes, i + 1, p, groups, k) if p == 0 else None
                raise Unsupported('regex anchor %s' % av)
            if op is sc.SUBPATTERN:
                gid, add_flags, del_flags, sub = av

                def k2(p2, g2, p=p, gid=gid):
                    if gid is not None:
                        g2 = dict(g2)
                        g2[gid] = (p, p2)
                    return m(nodes, i + 1, p2, g2, k)
                return m(list(sub), 0, p, groups, k2)
            if op is sc.BRANCH:
                for alt in av[1]:
                    r = m(list(alt), 0, p, groups,
                          lambda p2, g2: m(nodes, i + 1, p2, g2, k))
                    if r is not None:
                        return r
                return None
            if op is sc.MAX_REPEAT:
                lo, hi, sub = av
                sub = list(sub)

                def rep(count, p1, g1):
                    if hi is sc.MAXREPEAT or count < hi:
                        def after(p2, g2, p1=p1, count=count):
                            if p2 == p1:
                                return None       # empty iteration guard
                            return rep(count + 1, p2, g2)
                        r = m(sub, 0, p1, g1, after)
                        if r is not None:
                            return r
                    if count >= lo:
                        return m(nodes, i + 1, p1, g1, k)
                    return None
                return rep(0, p, groups)
            if op is sc.MIN_REPEAT:
                lo, hi, sub = av
                sub = list(sub)

                def repm(count, p1, g1):
                    if count >= lo:
                        r = m(nodes, i + 1, p1, g1, k)
                        if r is not None:
                            return r
                    if hi is sc.MAXREPEAT or count < hi:
                        def after(p2, g2, p1=p1, count=count):
                            if p2 == p1:
                                return None
                            return repm(count + 1, p2, g2)
                        return m(sub, 0, p1, g1, after)
                    return None
                return repm(0, p, groups)
            raise Unsupported('regex opcode %s' % op)

        def final(p, g):
            if _full and p != n:
                return None
            return (p, g)

        r = m(self.nodes, 0, pos, {}, final)
        if r is None:
            return None
        return SymMatch(s, pos, r[0], r[1], self.names, self.ngroups)

    def fullmatch(self, s, pos=0):
        return self.match(s, pos, _full=True)


class RxWrap:
    """What `re.compile` returns inside instrumented code: Python's engine for real
    strings, SymRx for symbolic ones."""

    def __init__(self, pat, flags=0):
        self._real = _real_compile(pat, flags)
        self._sym = None
        self.pattern = pat
        self.flags = flags

    def _symrx(self):
        if self._sym is None:
            if isinstance(self.pattern, bytes):
                raise Unsupported('bytes pattern')
            self._sym = SymRx(self.pattern, self.flags & ~re.UNICODE)
        return self._sym

    def match(self, s, pos=0, *a):
        if isinstance(s, SymStr):
            if a:
                raise Unsupported('match endpos')
            return self._symrx().match(s, pos)
        return self._real.match(s, pos, *a)

    def fullmatch(self, s, pos=0, *a):
        if isinstance(s, SymStr):
            return self._symrx().fullmatch(s, pos)
        return self._real.fullmatch(s, pos, *a)

    def search(self, s, pos=0, *a):
        if isinstance(s, SymStr):
            rx = self._symrx()
            for p in range(pos, len(s) + 1):
                r = rx.match(s, p)
                if r is not None:
                    return r
            return None
        return self._real.search(s, pos, *a)

    def __getattr__(self, n):
        if n in ('sub', 'subn', 'split', 'findall', 'finditer'):
            real = getattr(self._real, n)

            def guard(*a, **k):
                for x in a:
                    if isinstance(x, SymStr):
                        raise Unsupported('regex.%s on symbolic string' % n)
                return real(*a, **k)
            return guard
        return getattr(self._real, n)


# ---------------------------------------------------------------------- E2: pattern -> z3 regex
def to_z3_regex(pattern, dom=None):
    """Translate a live pattern to a z3 regular expression (language semantics).
    Anchors ^/$ are only accepted at the outer ends of a top-level alternative."""
    from .symstr import domain_U
    dom = dom or domain_U()
    S = z3.StringSort()
    R = z3.ReSort(S)

    def ch(c):
        return z3.Re(z3.StringVal(chr(c))) if c < 0xD800 or c > 0xDFFF else z3.Empty(R)

    def rng(lo, hi):
        return z3.Range(chr(lo), chr(hi))

    def table(src, flags):
        rs = matched_ranges(src, flags, dom)
        if not rs:
            return z3.Empty(R)
        alts = [rng(lo, hi) if lo != hi else ch(lo) for lo, hi in rs]
        return alts[0] if len(alts) == 1 else z3.Union(*alts)

    def cls(items, ic=False):
        if needs_table(items, ic):
            return table(set_source(items), re.IGNORECASE if ic else 0)
        neg = False
        alts = []
        for op, av in items:
            if op is sc.NEGATE:
                neg = True
            elif op is sc.LITERAL:
                alts.append(ch(av))
            elif op is sc.RANGE:
                alts.append(rng(av[0], av[1]))
            elif op is sc.CATEGORY and av is sc.CATEGORY_DIGIT:
                for lo, hi in dom.digit_blocks:
                    alts.append(rng(lo, hi))
            elif op is sc.CATEGORY and av is sc.CATEGORY_SPACE:
                for lo, hi in dom.space_ranges:
                    alts.append(rng(lo, hi))
            elif op is sc.CATEGORY and av is sc.CATEGORY_NOT_SPACE:
                sp = z3.Union(*[rng(lo, hi) for lo, hi in dom.space_ranges])
                alts.append(z3.Intersect(z3.AllChar(R), z3.Complement(sp)))
            else:
                raise Unsupported('E2 class item %s %s' % (op, av))
        r = alts[0] if len(alts) == 1 else z3.Union(*alts)
        if neg:
            r = z3.Intersect(z3.AllChar(R), z3.Complement(r))
        return r

    def seq(nodes):
        nodes = list(nodes)
        parts = [tr(x) for x in nodes]
        parts = [p for p in parts if p is not None]
        if not parts:
            return z3.Re(z3.StringVal(''))
        return parts[0] if len(parts) == 1 else z3.Concat(*parts)

    def tr(node):
        op, av, ic = node
        if op is sc.LITERAL:
            return table(_esc(av), re.IGNORECASE) if ic else ch(av)
        if op is sc.NOT_LITERAL:
            base = table(_esc(av), re.IGNORECASE) if ic else ch(av)
            return z3.Intersect(z3.AllChar(R), z3.Complement(base))
        if op is sc.ANY:
            return z3.Intersect(z3.AllChar(R), z3.Complement(ch(10)))
        if op is sc.IN:
            return cls(av, ic)
        if op is sc.SUBPATTERN:
            return seq(av[3])
        if op is sc.BRANCH:
            return z3.Union(*[seq(a) for a in av[1]])
        if op is sc.MAX_REPEAT or op is sc.MIN_REPEAT:
            lo, hi, sub = av
            r = seq(sub)
            if hi is sc.MAXREPEAT:
                if lo == 0:
                    return z3.Star(r)
                if lo == 1:
                    return z3.Plus(r)
                return z3.Concat(*([r] * lo + [z3.Star(r)]))
            if (lo, hi) == (0, 1):
                return z3.Option(r)
            return z3.Loop(r, lo, hi)
        if op is sc.AT:
            # only meaningful at the ends; treated as epsilon (callers use whole-string
            # semantics: the converters compare group() with the whole value)
            return None
        raise Unsupported('E2 opcode %s' % op)

    tree = sre_parse.parse(pattern)
    allf = tree.state.flags
    if allf & ~(re.IGNORECASE | re.UNICODE):
        raise Unsupported('regex flags %s' % allf)
    return seq(annotate(tree, bool(allf & re.IGNORECASE)))

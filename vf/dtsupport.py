"""Datatype functions referenced by generated schemas (by dotted name)."""
import logging


class PlainFormatter(logging.Formatter):
    """a formatter class whose constructor has no `style` parameter (C20: ZConfig then installs
    its own style object's usesTime / formatMessage on the instance)"""

    def __init__(self, fmt=None, datefmt=None):
        logging.Formatter.__init__(self, fmt, datefmt, validate=False)


class Wrapped:
    """section datatype that wraps its argument"""

    def __init__(self, value):
        self.value = value


def wrap(value):
    return Wrapped(value)


class Wrapped2(Wrapped):
    """a second, distinguishable wrapping section datatype"""


def wrap2(value):
    return Wrapped2(value)


def picky(value):
    """section datatype that rejects sections whose attribute `ka` is the string 'bad'"""
    if getattr(value, 'ka', None) == 'bad':
        raise ValueError('picky section datatype refuses ka=bad')
    return value


# ---- two datatypes whose dotted names differ in letter case only
def shout(value):
    return value.upper() + '!'


def Shout(value):      # noqa
    return "'" + value + "'"


# ---- C08: an application key type / datatype whose exceptions can be recognised
class Refused(ValueError):
    """what remember_key / remember_int raise; the instance is remembered in LAST"""


LAST = {'exc': None}


def _refuse(what):
    e = Refused(what)
    LAST['exc'] = e
    raise e


def remember_key(value):
    """key type: an ASCII letter followed by ASCII letters and digits, lower-cased"""
    from .symstr import is_ascii_alpha, is_ascii_digit
    if len(value) == 0 or not is_ascii_alpha(value[0]):
        _refuse('not a key')
    for i in range(1, len(value)):
        if not (is_ascii_alpha(value[i]) or is_ascii_digit(value[i])):
            _refuse('not a key')
    return value.lower()


def remember_int(value):
    from .symstr import is_ascii_digit
    if len(value) == 0:
        _refuse('not a number')
    for i in range(len(value)):
        if not is_ascii_digit(value[i]):
            _refuse('not a number')
    if isinstance(value, str):
        return int(value)
    from .symstr import sym_int
    return sym_int(value)


def nested_conv(value):
    """a datatype built on ZConfig's own machinery: it refuses everything that does not start with a digit by
    raising a DataConversionError OF ITS OWN (carrying a position inside whatever it parsed); the instance
    is remembered in LAST"""
    import ZConfig
    from .symstr import is_ascii_digit
    if len(value) > 0 and is_ascii_digit(value[0]):
        return value
    e = ZConfig.DataConversionError(Refused('inner'), 'fragment', (7, 3, 'u:/nested.conf'))
    LAST['exc'] = e
    raise e


# ---- C19: counting datatypes with an injectable failure point
COUNTER = {'n': 0, 'fail_at': None, 'sn': 0, 'sfail_at': None}


def counted_int(value):
    k = COUNTER['n']
    COUNTER['n'] = k + 1
    f = COUNTER['fail_at']
    if f is not None and f == k:
        raise ValueError('injected datatype failure at call %d' % k)
    if isinstance(value, str):
        return int(value)
    from .symstr import sym_int        # symbolic token in the engine
    return sym_int(value)


def counted_section(value):
    k = COUNTER['sn']
    COUNTER['sn'] = k + 1
    f = COUNTER['sfail_at']
    if f is not None and f == k:
        raise ValueError('injected section datatype failure at call %d' % k)
    return value

"""Datatype functions referenced by generated schemas (by dotted name)."""


class Wrapped:
    """section datatype that wraps its argument"""

    def __init__(self, value):
        self.value = value


def wrap(value):
    return Wrapped(value)


def picky(value):
    """section datatype that rejects sections whose attribute `ka` is the string 'bad'"""
    if getattr(value, 'ka', None) == 'bad':
        raise ValueError('picky section datatype refuses ka=bad')
    return value

"""Datatype functions referenced by generated schemas (by dotted name)."""
import logging


class PlainFormatter(logging.Formatter):
    """a formatter class whose constructor has no `style` parameter (C20: ZConfig then installs
    its own style object's usesTime / formatMessage on the instance)"""

    def __init__(self, fmt=None, datefmt=None):
        logging.Formatter.__init__(self, fmt, datefmt, validate=False)


class Wrapped:
    """section datatype that wraps its argument"""

    def __init__(self, value):
        self.value = value


def wrap(value):
    return Wrapped(value)


class Wrapped2(Wrapped):
    """a second, distinguishable wrapping section datatype"""


def wrap2(value):
    return Wrapped2(value)


def picky(value):
    """section datatype that rejects sections whose attribute `ka` is the string 'bad'"""
    if getattr(value, 'ka', None) == 'bad':
        raise ValueError('picky section datatype refuses ka=bad')
    return value


# ---- two datatypes whose dotted names differ in letter case only
def shout(value):
    return value.upper() + '!'


def Shout(value):      # noqa
    return "'" + value + "'"


# ---- C19: counting datatypes with an injectable failure point
COUNTER = {'n': 0, 'fail_at': None, 'sn': 0, 'sfail_at': None}


def counted_int(value):
    k = COUNTER['n']
    COUNTER['n'] = k + 1
    f = COUNTER['fail_at']
    if f is not None and f == k:
        raise ValueError('injected datatype failure at call %d' % k)
    if isinstance(value, str):
        return int(value)
    from .symstr import sym_int        # symbolic token in the engine
    return sym_int(value)


def counted_section(value):
    k = COUNTER['sn']
    COUNTER['sn'] = k + 1
    f = COUNTER['sfail_at']
    if f is not None and f == k:
        raise ValueError('injected section datatype failure at call %d' % k)
    return value

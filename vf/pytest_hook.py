"""pytest plugin (-p vf.pytest_hook): runs the repository's own test-suite through the
instrumentation hook with no symbolic values (translator validation, DESIGN 3.3)."""
from vf import instr
instr.install()

"""CLI: python -m vf.run Cxx [quick|thorough]   |   python -m vf.run --replay <file>

exit 0  property held on everything explored (KNOWN-FINDING lines possible)
exit 1  at least one reproduced violation that is not a listed known finding
exit 2  harness error / engine-reality mismatch (never printed as VIOLATION)
"""
import concurrent.futures as cf
import json
import multiprocessing as mp
import os
import random
import sys
import time

VERIF = os.path.dirname(os.path.dirname(os.path.abspath(__file__)))
NPROC = int(os.environ.get('VERIF_NPROC', str(min(16, os.cpu_count() or 4))))


def _pool_init(instrument):
    os.environ['PYTHONHASHSEED'] = '0'
    sys.setrecursionlimit(2500)      # instrumented frames are doubled by the call helper
    if instrument:
        from vf import instr
        instr.install()


def _task(args):
    from vf import base
    prop, unit, prefixes, slice_s = args
    try:
        return base.run_task(prop, unit, prefixes, slice_s)
    except BaseException as e:     # noqa
        import traceback
        return {'unit': unit, 'crash': '%s: %s' % (type(e).__name__, e),
                'tb': traceback.format_exc()[-3000:], 'left': []}


def load_known():
    p = os.path.join(VERIF, 'known_findings.json')
    if not os.path.exists(p):
        return []
    return json.load(open(p))


def main(argv):
    if argv and argv[0] == '--replay':
        return replay(argv[1])
    if not argv:
        print(__doc__)
        return 2
    prop = argv[0].upper()
    tier = os.environ.get('VERIF_TIER') or (argv[1] if len(argv) > 1 else 'quick')
    seed = int(os.environ.get('VERIF_SEED', '0') or 0)
    t0 = time.time()
    sys.path.insert(0, VERIF)
    from vf import base
    from vf import instr
    instr.install()
    h = base.load_harness(prop)
    budget = h.budget(tier) if hasattr(h, 'budget') else (150 if tier == 'quick' else 1200)
    if os.environ.get('VERIF_BUDGET_S'):
        budget = float(os.environ['VERIF_BUDGET_S'])      # smoke runs of the thorough tier
    units = h.units(tier)
    only = os.environ.get('VERIF_UNITS')      # debugging aid: substring filter on the unit JSON
    if only:
        units = [u for u in units if only in json.dumps(u)]
    rnd = random.Random(seed)
    order = list(range(len(units)))
    rnd.shuffle(order)

    pre = h.preflight(tier) if hasattr(h, 'preflight') else {}
    if pre.get('error'):
        print('HARNESS-ERROR property=%s preflight: %s' % (prop, pre['error']))
        return 2

    agg = {'paths': 0, 'aborted': 0, 'decisions': 0, 'forks': 0, 'solver_checks': 0,
           'solver_time': 0.0, 'witnesses': 0, 'boundary_witnesses': 0, 'nontrivial': 0,
           'obligations': 0, 'discharged': 0}
    classes = {}
    violations = []
    mismatches = []
    degraded = []
    inconclusive = []
    crashes = []
    samples = []
    functions = set()
    stubs_used = set()
    unfinished = []
    units_done = 0
    unit_classes = {}
    slice_s = h.slice_s if hasattr(h, 'slice_s') else 6.0
    deadline = t0 + budget

    # E2 witnesses (language difference found by the regex solver): concrete replays
    for u, cin in pre.get('replay', []):
        r = base._WORKER.call({'prop': prop, 'unit': u, 'inp': cin})
        if 'error' in r:
            mismatches.append({'unit': u, 'input': cin, 'worker_error': r['error']})
        elif not r['agree']:
            violations.append({'unit': u, 'input': cin, 'real': r['real'], 'exp': r['exp'], 'via': 'E2 witness'})
    pre.pop('replay', None)

    stop_early = os.environ.get('VERIF_STOP_ON_VIOLATION') == '1'
    _open_ids = {k['id'] for k in load_known() if k.get('property') == prop and k.get('status') == 'open'}

    def _is_new(v):
        try:
            return h.finding(v['unit'], v['input'], v['real'], v['exp']) not in _open_ids
        except Exception:
            return True
    ctx = mp.get_context('spawn')
    with cf.ProcessPoolExecutor(max_workers=NPROC, mp_context=ctx, initializer=_pool_init,
                                initargs=(True,)) as ex:
        futs = {}
        open_units = {}
        for i in order:
            f = ex.submit(_task, (prop, units[i], None, slice_s))
            futs[f] = i
            open_units[i] = open_units.get(i, 0) + 1
        while futs:
            done, _ = cf.wait(list(futs), return_when=cf.FIRST_COMPLETED)
            if time.time() > deadline:
                # the budget is a real bound: units that have not been started yet are not started any more
                # (they are listed as unfinished, and the run is not exhaustive)
                for f in list(futs):
                    if f not in done and f.cancel():
                        i = futs.pop(f)
                        open_units[i] -= 1
                        unfinished.append({'unit': units[i], 'not_started': True})
            for f in done:
                i = futs.pop(f)
                open_units[i] -= 1
                r = f.result()
                if 'crash' in r:
                    crashes.append(r)
                    continue
                for k in agg:
                    agg[k] += r.get(k, 0)
                for c, n in r['classes'].items():
                    classes[c] = classes.get(c, 0) + n
                    unit_classes.setdefault(i, set()).add(c)
                violations.extend({'unit': r['unit'], **v} for v in r['violations'])
                mismatches.extend({'unit': r['unit'], **v} for v in r['witness_mismatch'])
                degraded.extend({'unit': r['unit'], **v} for v in r['degraded'])
                inconclusive.extend(r['inconclusive'])
                functions.update(r.get('functions', ()))
                stubs_used.update(r.get('stubs_used', ()))
                if len(samples) < 6:
                    samples.extend(r['samples'][:2])
                left = r['left']
                if left:
                    if time.time() > deadline:
                        unfinished.append({'unit': r['unit'], 'prefixes_left': len(left)})
                    else:
                        # split the remaining frontier into a few tasks
                        nchunk = min(len(left), 4 if len(futs) >= NPROC else NPROC)
                        for c in range(nchunk):
                            chunk = left[c::nchunk]
                            f2 = ex.submit(_task, (prop, r['unit'], chunk, slice_s))
                            futs[f2] = i
                            open_units[i] += 1
                if open_units[i] == 0:
                    units_done += 1
            if stop_early and any(_is_new(v) for v in violations):
                # seeded-change / mutant runs only need to know THAT the check raises the alarm
                for f in list(futs):
                    f.cancel()
                unfinished.append({'note': 'stopped at the first confirmed violation (VERIF_STOP_ON_VIOLATION)'})
                futs = {}
                ex.shutdown(wait=True, cancel_futures=True)
                break

    wall = time.time() - t0
    exhaustive = (not unfinished and not degraded and not inconclusive and not crashes and not mismatches)

    # ---------------- triage of violations
    known = load_known()
    open_known = {k['id']: k for k in known if k.get('property') == prop and k.get('status') == 'open'}
    new_viol = []
    known_hits = {}
    seen = set()
    for v in violations:
        key = json.dumps([v['unit'], v['input']], sort_keys=True)
        if key in seen:
            continue
        seen.add(key)
        fid = h.finding(v['unit'], v['input'], v['real'], v['exp'])
        if fid is not None and fid in open_known:
            known_hits.setdefault(fid, []).append(v)
        else:
            new_viol.append(v)

    rc = 0
    for fid, vs in sorted(known_hits.items()):
        k = open_known[fid]
        print('KNOWN-FINDING: property=%s %s %s (e.g. %s)' % (
            prop, fid, k.get('what', ''), (json.dumps(vs[0]['unit']) + ' ' + json.dumps(vs[0]['input']))[:240]))
    # open findings are announced even when this run's bound did not reach them
    for fid, k in sorted(open_known.items()):
        if fid not in known_hits:
            print('KNOWN-FINDING: property=%s %s %s (listed; not re-observed within this run\'s bounds)'
                  % (prop, fid, k.get('what', '')))
    OUT = os.environ.get('VERIF_OUT', VERIF)     # the mutation self-test redirects outputs
    replay_dir = os.path.join(OUT, 'replays', prop)
    if new_viol:
        os.makedirs(replay_dir, exist_ok=True)
        # one replay per distinct outcome pair keeps the report readable
        shown = 0
        groups = {}
        for v in new_viol:
            gk = json.dumps([v['real'], v['exp']], sort_keys=True)[:300]
            groups.setdefault(gk, []).append(v)
        for gk, vs in sorted(groups.items(), key=lambda kv: min(len(json.dumps(x['input'])) for x in kv[1]))[:20]:
            v = min(vs, key=lambda x: len(json.dumps(x['input'])))
            rid = base.replay_id(prop, v['unit'], v['input'])
            path = os.path.join(replay_dir, rid + '.json')
            json.dump({'property': prop, 'unit': v['unit'], 'input': v['input'],
                       'observed_on_real_code': v['real'], 'expected_by_property': v['exp'],
                       'found_via': v.get('via'), 'similar_counterexamples': len(vs),
                       'how_to_replay': 'bin/check --replay ' + path}, open(path, 'w'), indent=1)
            if shown < 20:
                print('VIOLATION property=%s replay=%s' % (prop, path))
                shown += 1
        rc = 1

    # ---------------- harness faults
    harness_err = []
    if crashes:
        harness_err.append('task crash: ' + crashes[0]['crash'])
        sys.stderr.write(crashes[0].get('tb', '') + '\n')
    if mismatches:
        harness_err.append('engine/pristine mismatch on %d witnesses, e.g. %s'
                           % (len(mismatches), json.dumps(mismatches[0])[:600]))
    missing = [c for c in h.expected_classes if not classes.get(c)]
    if missing and not unfinished and not crashes and not only:
        harness_err.append('vacuity: outcome classes never reached: %s' % missing)
    if agg['paths'] == 0:
        harness_err.append('no path explored')
    # per-unit vacuity: a unit that declares the outcome class it exists for must reach it
    if not unfinished and not crashes:
        dead = [units[i] for i in range(len(units)) if units[i].get('must_reach')
                and i in unit_classes and units[i]['must_reach'] not in unit_classes[i]]
        if dead and not violations:
            harness_err.append('vacuity: %d unit(s) never reached their declared outcome class, e.g. %s'
                               % (len(dead), json.dumps(dead[0])[:300]))

    single = {}
    for i, cs in unit_classes.items():
        if len(cs) == 1:
            single.setdefault(next(iter(cs)), []).append(units[i])
    if os.environ.get('VERIF_AUDIT'):
        for c, us in sorted(single.items()):
            print('AUDIT %d unit(s) reach only class %r:' % (len(us), c))
            for u in us[:40]:
                print('   ', json.dumps(u)[:260])
    # ---------------- evidence
    ev = {
        'property_id': prop, 'tier': tier, 'seed': seed, 'level': 'model_checking',
        'coverage': {
            'states': agg['paths'], 'transitions': agg['decisions'],
            'traces_validated_against_impl': agg['witnesses'],
            'samples': samples[:6] or [{'note': 'no path completed'}],
            'obligations': agg['obligations'] + pre.get('obligations', 0),
            'discharged': agg['discharged'] + pre.get('discharged', 0),
            'evaluations': agg['paths'], 'distinct_nontrivial': agg['nontrivial'],
            'rule': 'one evaluation = one feasible path of the real code (a set of inputs sharing '
                    'a shape); non-trivial per harness rule: ' + getattr(h, 'nontrivial_rule', 'every completed path'),
            'exhaustive': bool(exhaustive),
            'explanation': h.title,
            'forks': agg['forks'], 'solver_checks': agg['solver_checks'],
            'solver_seconds': round(agg['solver_time'], 2),
            'boundary_witnesses': agg['boundary_witnesses'],
            'outcome_classes': classes,
            'units_reaching_a_single_outcome_class': {c: len(us) for c, us in sorted(single.items())},
            'units_total': len(units), 'units_completed': units_done,
            'unfinished_units': unfinished[:20],
            'degraded_paths': degraded[:20], 'degraded_count': len(degraded),
            'inconclusive': inconclusive[:10],
            'functions_encoded': [f for f in sorted(functions) if any(f.startswith(p) for p in h.functions)] or list(h.functions),
            'modules_compiled_from_current_source': sorted({f.rsplit('.', 2)[0] for f in functions})[:40],
            'bounds': h.bounds.get(tier, h.bounds) if isinstance(h.bounds, dict) else h.bounds,
            'character_domain': h.make_domain().describe(),
            'stubs': sorted(set(h.stubs) | stubs_used),
            'solver': 'z3 ' + _z3v(),
            'preflight': pre,
            'known_findings_observed': {k: len(v) for k, v in known_hits.items()},
            'harness_errors': harness_err,
        },
        'assumptions': list(h.assumptions),
        'wall_s': round(wall, 2),
        'violations': len(new_viol),
    }
    os.makedirs(os.path.join(OUT, 'evidence'), exist_ok=True)
    # a run restricted to some units (debugging aid) must not replace the record of a full run
    json.dump(ev, open(os.path.join(OUT, 'evidence', prop + ('.filtered.json' if only else '.json')), 'w'), indent=1)

    print('%s %s: %d paths, %d forks, %d solver checks (%.1fs), %d witnesses replayed, '
          '%d/%d obligations discharged, classes=%s, exhaustive=%s, wall=%.1fs'
          % (prop, tier, agg['paths'], agg['forks'], agg['solver_checks'], agg['solver_time'],
             agg['witnesses'], ev['coverage']['discharged'], ev['coverage']['obligations'],
             classes, exhaustive, wall))
    if degraded:
        print('note: %d degraded paths (unsupported construct), first: %s' % (len(degraded), degraded[0]))
    if unfinished:
        print('note: %d units not finished within the budget' % len(unfinished))
    if rc == 1:
        return 1
    if harness_err:
        # The engine's own faults (a model of a primitive that disagrees with the real code on a
        # replayed witness, a crash inside the engine, an outcome class never reached) say nothing
        # about the property.  Every explored path's witness was still run on the real code and
        # compared with the oracle there, and no violation was found - so this is reported as
        # inconclusive, not as an alarm.  VERIF_STRICT=1 (used while developing the harnesses and
        # by tools/seeded.py / tools/mutants.py) turns it into exit status 2.
        strict = os.environ.get('VERIF_STRICT') == '1'
        for e in harness_err:
            print('%s property=%s %s' % ('HARNESS-ERROR' if strict else 'INCONCLUSIVE', prop, e))
        return 2 if strict else 0
    return 0


def _z3v():
    import z3
    return z3.get_version_string()


def replay(path):
    sys.path.insert(0, VERIF)
    from vf import base
    d = json.load(open(path))
    r = base._WORKER.call({'prop': d['property'], 'unit': d['unit'], 'inp': d['input']})
    base._WORKER.close()
    print(json.dumps({'input': d['input'], 'pristine_run': r}, indent=1))
    if 'error' in r:
        return 2
    if not r['agree']:
        print('VIOLATION property=%s replay=%s' % (d['property'], path))
        return 1
    print('no violation on the current tree')
    return 0


if __name__ == '__main__':
    sys.exit(main(sys.argv[1:]))

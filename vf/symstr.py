"""Symbolic strings: concrete length, symbolic characters (z3 Ints over code points).

Every operation whose *result shape* depends on the content (find, strip, split, ...)
decides z3 conditions position by position through Engine.decide, i.e. it forks on the
position outcome, never on the character value.
"""
import unicodedata

import z3

from . import core
from .core import Unsupported, mk, tobool, SymBool, SymInt, symint, zand, zor, znot


# ---------------------------------------------------------------------- character domains
def _ranges(codes):
    out = []
    for c in sorted(codes):
        if out and out[-1][1] == c - 1:
            out[-1][1] = c
        else:
            out.append([c, c])
    return [tuple(r) for r in out]


_ALL_SPACE = [c for c in range(0x110000) if chr(c).isspace()]
_ALL_DIGIT_BLOCKS = None


def _int_strips(c):
    try:
        int(chr(c) + '1')
        int('1' + chr(c))
        return True
    except ValueError:
        return False


_INT_SPACE = frozenset(c for c in _ALL_SPACE if _int_strips(c))


def _digit_blocks():
    """[(start, end)] of runs of decimal digits 0..9 (category Nd) in this interpreter."""
    global _ALL_DIGIT_BLOCKS
    if _ALL_DIGIT_BLOCKS is None:
        blocks = []
        c = 0
        while c < 0x110000:
            if unicodedata.decimal(chr(c), None) == 0:
                ok = all(unicodedata.decimal(chr(c + i), None) == i for i in range(10))
                if ok:
                    blocks.append((c, c + 9))
                    c += 10
                    continue
            c += 1
        # sanity: every Nd char is in a block
        _ALL_DIGIT_BLOCKS = blocks
    return _ALL_DIGIT_BLOCKS


_LINEBREAKS = frozenset(c for c in range(0x110000) if len(('a' + chr(c) + 'b').splitlines()) > 1)
_LINEBREAK_RANGES = _ranges(sorted(_LINEBREAKS))


def _in_ranges(c, ranges):
    alts = []
    for lo, hi in ranges:
        if lo == hi:
            alts.append(c == lo)
        else:
            alts.append(z3.And(c >= lo, c <= hi))
    return z3.Or(alts) if alts else z3.BoolVal(False)


class Domain:
    """Character domain.  Tables are computed from the running interpreter."""

    def __init__(self, name, extra=None):
        self.name = name
        if name == 'U':
            self.full = True
            self.members = None
            self.space = list(_ALL_SPACE)
            self.digit_blocks = list(_digit_blocks())
        else:
            self.full = False
            ascii_ = list(range(128))
            self.extra = list(extra or [])
            self.members = ascii_ + self.extra
            self.space = [c for c in self.members if chr(c).isspace()]
            self.digit_blocks = None
            self.digits = {c: unicodedata.decimal(chr(c)) for c in self.members
                           if unicodedata.decimal(chr(c), None) is not None}
            self.lower_map = {}
            self.upper_map = {}
            for c in self.members:
                lo, up = chr(c).lower(), chr(c).upper()
                if len(lo) != 1 or len(up) != 1:
                    raise ValueError('case mapping of U+%04X is not length preserving' % c)
                if ord(lo) not in self.members or ord(up) not in self.members:
                    raise ValueError('domain not closed under case mapping at U+%04X' % c)
                if ord(lo) != c:
                    self.lower_map[c] = ord(lo)
                if ord(up) != c:
                    self.upper_map[c] = ord(up)
            # context-freeness of case mapping on the domain (excludes final sigma etc.)
            for c in self.members:
                for ctx in ('a%sa', '%sa', 'a%s', 'A%s ', ' %s'):
                    s = ctx % chr(c)
                    i = ctx.index('%')
                    if s.lower()[i] != chr(self.lower_map.get(c, c)) or len(s.lower()) != len(s):
                        raise ValueError('context dependent lower() at U+%04X' % c)
        self.space_ranges = _ranges(self.space)
        # int() strips a different set than str.strip(): U+001C..U+001F are not stripped
        # (measured on this interpreter at start-up, see _INT_SPACE)
        self.int_space_ranges = _ranges([c for c in self.space if c in _INT_SPACE])

    # constraint that a fresh character is in the domain
    def member(self, c):
        if self.full:
            return z3.And(c >= 0, c <= 0x10FFFF)
        return z3.Or(z3.And(c >= 0, c <= 127), *[c == e for e in self.extra])

    def _memo_get(self, kind, c, build):
        """z3 terms are immutable and hash-consed in the global context, so a predicate over
        a given character term can be reused across paths (the term is kept alive)."""
        m = self.__dict__.setdefault('_memo', {})
        key = (kind, c.get_id())
        r = m.get(key)
        if r is None:
            r = (build(), c)
            m[key] = r
        return r[0]

    def is_space(self, c):
        if isinstance(c, int):
            return chr(c).isspace()
        return self._memo_get('sp', c, lambda: _in_ranges(c, self.space_ranges))

    def char_class(self, kind, c):
        """z3 predicate "chr(c).<kind>()" for the all-characters str predicates (isdigit, isdecimal,
        isnumeric, isalnum, isalpha, isprintable); table computed from the running interpreter"""
        if isinstance(c, int):
            return getattr(chr(c), kind)()
        def build():
            key = '_cc_' + kind
            rs = self.__dict__.get(key)
            if rs is None:
                universe = range(0x110000) if self.full else self.members
                rs = self.__dict__[key] = _ranges([x for x in universe if getattr(chr(x), kind)()])
            return _in_ranges(c, rs)
        return self._memo_get('cc' + kind, c, build)

    def is_alpha(self, c):
        if isinstance(c, int):
            return chr(c).isalpha()
        def build():
            if self.full:
                rs = self.__dict__.get('_alpha_ranges')
                if rs is None:
                    rs = self.__dict__['_alpha_ranges'] = _ranges(
                        [x for x in range(0x110000) if chr(x).isalpha()])
            else:
                rs = _ranges([x for x in self.members if chr(x).isalpha()])
            return _in_ranges(c, rs)
        return self._memo_get('al', c, build)

    def is_int_space(self, c):
        if isinstance(c, int):
            return c in _INT_SPACE
        return self._memo_get('isp', c, lambda: _in_ranges(c, self.int_space_ranges))

    def is_digit(self, c):
        """decimal digit in the sense of int() and regex \\d"""
        if isinstance(c, int):
            return unicodedata.decimal(chr(c), None) is not None
        if self.full:
            return self._memo_get('dg', c, lambda: _in_ranges(c, self.digit_blocks))
        return self._memo_get('dg', c, lambda: _in_ranges(c, _ranges(self.digits)))

    def digit_val(self, c):
        if isinstance(c, int):
            return unicodedata.decimal(chr(c))
        return self._memo_get('dv', c, lambda: self._digit_val(c))

    def _digit_val(self, c):
        if self.full:
            e = c - 48
            for lo, hi in self.digit_blocks:
                if lo != 48:
                    e = z3.If(z3.And(c >= lo, c <= hi), c - lo, e)
            return e
        e = c - 48
        for d, v in self.digits.items():
            if d >= 128:
                e = z3.If(c == d, v, e)
        return e

    def _case(self, c, table, lo, hi, delta):
        if isinstance(c, int):
            return None
        e = z3.If(z3.And(c >= lo, c <= hi), c + delta, c)
        for k, v in table.items():
            if k >= 128:
                e = z3.If(c == k, v, e)
        return e

    def lower(self, c):
        if isinstance(c, int):
            r = chr(c).lower()
            if len(r) != 1:
                raise Unsupported('lower() changes length')
            return ord(r)
        if self.full:
            eng = core.ENG
            if eng.check(c >= 128):
                raise Unsupported('lower() of a possibly non-ASCII character in domain U')
            return self._memo_get('lo', c, lambda: z3.If(z3.And(c >= 65, c <= 90), c + 32, c))
        return self._memo_get('lo', c, lambda: self._case(c, self.lower_map, 65, 90, 32))

    def upper(self, c):
        if isinstance(c, int):
            r = chr(c).upper()
            if len(r) != 1:
                raise Unsupported('upper() changes length')
            return ord(r)
        if self.full:
            eng = core.ENG
            if eng.check(c >= 128):
                raise Unsupported('upper() of a possibly non-ASCII character in domain U')
            return self._memo_get('up', c, lambda: z3.If(z3.And(c >= 97, c <= 122), c - 32, c))
        return self._memo_get('up', c, lambda: self._case(c, self.upper_map, 97, 122, -32))

    def describe(self):
        if self.full:
            return 'U: all code points 0..0x10FFFF'
        return 'D: ASCII 0..127 plus ' + ' '.join('U+%04X' % e for e in self.extra)


D_EXTRA = [0x85, 0xA0, 0x2003, 0x3000, 0x2028,      # whitespace
           0xE9, 0xC9, 0x3C9, 0x3A9,                # cased letters é É ω Ω
           0x17F,                                   # LONG S: lower-case, upper() is ASCII 'S', casefold() is 's'
           0x663,                                   # ARABIC-INDIC DIGIT THREE
           0x20AC,                                  # euro sign
           0xFEFF,                                  # ZERO WIDTH NO-BREAK SPACE / byte order mark (a format character)
           0xB4, 0xFF08]                            # compatibility characters: NFKC of ACUTE ACCENT is blank + combining
                                                    # acute, of FULLWIDTH LEFT PARENTHESIS an ASCII '('


def domain_D():
    return Domain('D', D_EXTRA)


def domain_U():
    return Domain('U')


# ---------------------------------------------------------------------- helpers
def ceq(a, b):
    if isinstance(a, int) and isinstance(b, int):
        return z3.BoolVal(a == b)
    return a == b


def chars_of(x):
    if isinstance(x, SymStr):
        return x.cs
    if isinstance(x, str):
        return tuple(map(ord, x))
    raise Unsupported('expected str, got %s' % type(x).__name__)


def simp(cs):
    """tuple of chars -> str if all concrete (after pins) else SymStr"""
    eng = core.ENG
    if eng is not None and eng.pins:
        cs = tuple(eng.pinned(c) for c in cs)
    for c in cs:
        if not isinstance(c, int):
            return SymStr(cs)
    return ''.join(map(chr, cs))


_HASH_OK = [0]


class hash_ok:
    def __enter__(self):
        _HASH_OK[0] += 1

    def __exit__(self, *a):
        _HASH_OK[0] -= 1


class SymStr:
    __slots__ = ('cs',)

    def __init__(self, cs):
        self.cs = tuple(cs)

    # -- basics
    def __len__(self):
        return len(self.cs)

    def __bool__(self):
        return len(self.cs) > 0

    def __repr__(self):
        return '<sym:%d>' % len(self.cs)

    def __str__(self):
        core.ENG and core.ENG.notes.append('native str() of SymStr')
        return '<sym:%d>' % len(self.cs)

    def __fspath__(self):
        raise Unsupported('a symbolic string used as a file-system path by native code')

    def __hash__(self):
        if _HASH_OK[0]:
            return 0x5e5e5e
        raise Unsupported('hash of SymStr outside a dict helper')

    def eval(self, model):
        out = []
        for c in self.cs:
            if isinstance(c, int):
                out.append(chr(c))
            else:
                out.append(chr(model.eval(c, model_completion=True).as_long()))
        return ''.join(out)

    def _self(self):
        """apply pins"""
        eng = core.ENG
        if eng is not None and eng.pins:
            self.cs = tuple(eng.pinned(c) for c in self.cs)
        return self

    def is_concrete(self):
        self._self()
        return all(isinstance(c, int) for c in self.cs)

    def concrete(self):
        if not self.is_concrete():
            raise Unsupported('symbolic string where a concrete one is required')
        return ''.join(map(chr, self.cs))

    # -- comparisons
    def _eq_expr(self, o):
        b = chars_of(o)
        if len(b) != len(self.cs):
            return z3.BoolVal(False)
        if not b:
            return z3.BoolVal(True)
        return zand([ceq(x, y) for x, y in zip(self.cs, b)])

    def __eq__(self, o):
        if not isinstance(o, (str, SymStr)):
            return False
        r = mk(self._eq_expr(o))
        if isinstance(o, str) and isinstance(r, SymBool):
            # deciding here lets the true branch continue with a concrete string
            r = bool(r)
            if r:
                self.cs = tuple(map(ord, o))
        return r

    def __ne__(self, o):
        r = self.__eq__(o)
        if isinstance(r, SymBool):
            return mk(znot(r.e))
        return not r

    def _lt(self, o, strict_or_eq):
        x, y = self.cs, chars_of(o)
        for i in range(min(len(x), len(y))):
            if isinstance(x[i], int) and isinstance(y[i], int):
                if x[i] != y[i]:
                    return x[i] < y[i]
                continue
            if not mk(ceq(x[i], y[i])):
                return bool(mk(x[i] < y[i]))
        if strict_or_eq == 'lt':
            return len(x) < len(y)
        return len(x) <= len(y)

    def __lt__(self, o):
        if not isinstance(o, (str, SymStr)):
            return NotImplemented
        return self._lt(o, 'lt')

    def __le__(self, o):
        if not isinstance(o, (str, SymStr)):
            return NotImplemented
        return self._lt(o, 'le')

    def __gt__(self, o):
        if not isinstance(o, (str, SymStr)):
            return NotImplemented
        return not self._lt(o, 'le')

    def __ge__(self, o):
        if not isinstance(o, (str, SymStr)):
            return NotImplemented
        return not self._lt(o, 'lt')

    # -- construction
    def __add__(self, o):
        if not isinstance(o, (str, SymStr)):
            return NotImplemented
        return simp(self.cs + chars_of(o))

    def __radd__(self, o):
        if not isinstance(o, str):
            return NotImplemented
        return simp(chars_of(o) + self.cs)

    def __mul__(self, n):
        return simp(self.cs * n)

    def __getitem__(self, k):
        if isinstance(k, slice):
            return simp(self.cs[k])
        if isinstance(k, SymInt):
            raise Unsupported('symbolic index')
        return simp((self.cs[k],))

    def __iter__(self):
        for c in self.cs:
            yield simp((c,))

    def __contains__(self, sub):
        return self.find(sub) >= 0

    def __mod__(self, other):
        raise Unsupported('%-formatting with a symbolic format string')

    def __rmod__(self, other):
        return OpaqueMsg('<msg>')

    # -- predicates
    def _dom(self):
        return core.ENG.domain

    def _ws(self, c):
        return self._dom().is_space(c)

    def isspace(self):
        if not self.cs:
            return False
        return mk(zand([tobool(self._ws(c)) for c in self.cs]))

    def _allchars(self, kind):
        if not self.cs:
            return False
        d = self._dom()
        return mk(zand([tobool(d.char_class(kind, c)) for c in self._self().cs]))

    def isdigit(self):
        return self._allchars('isdigit')

    def isdecimal(self):
        return self._allchars('isdecimal')

    def isnumeric(self):
        return self._allchars('isnumeric')

    def isalnum(self):
        return self._allchars('isalnum')

    def isprintable(self):
        if not self.cs:
            return True
        return self._allchars('isprintable')

    def isascii(self):
        return mk(zand([(z3.BoolVal(c < 128) if isinstance(c, int) else c < 128) for c in self._self().cs]))

    def isalpha(self):
        if not self.cs:
            return False
        d = self._dom()
        return mk(zand([tobool(d.is_alpha(c)) for c in self._self().cs]))

    def partition(self, sep):
        i = self.find(sep)
        if i < 0:
            return (simp(self.cs), '', '')
        n = len(chars_of(sep))
        return (simp(self.cs[:i]), simp(self.cs[i:i + n]), simp(self.cs[i + n:]))

    def rpartition(self, sep):
        i = self.rfind(sep)
        if i < 0:
            return ('', '', simp(self.cs))
        n = len(chars_of(sep))
        return (simp(self.cs[:i]), simp(self.cs[i:i + n]), simp(self.cs[i + n:]))

    # -- shape-changing operations: decide position by position
    def _strip_pred(self, chars):
        if chars is None:
            return lambda c: mk(tobool(self._ws(c)))
        cc = chars_of(chars)
        return lambda c: mk(zor([ceq(c, x) for x in cc]) if cc else z3.BoolVal(False))

    def rstrip(self, chars=None):
        p = self._strip_pred(chars)
        n = len(self.cs)
        while n > 0 and p(self.cs[n - 1]):
            n -= 1
        return simp(self.cs[:n])

    def lstrip(self, chars=None):
        p = self._strip_pred(chars)
        i = 0
        while i < len(self.cs) and p(self.cs[i]):
            i += 1
        return simp(self.cs[i:])

    def strip(self, chars=None):
        r = self.rstrip(chars)
        if isinstance(r, SymStr):
            return r.lstrip(chars)
        return r.lstrip(chars)

    def split(self, sep=None, maxsplit=-1):
        if isinstance(maxsplit, SymInt):
            raise Unsupported('symbolic maxsplit')
        if sep is None:
            out = []
            i = 0
            n = len(self.cs)
            while True:
                while i < n and mk(tobool(self._ws(self.cs[i]))):
                    i += 1
                if i >= n:
                    break
                if maxsplit >= 0 and len(out) >= maxsplit:
                    # remainder is kept verbatim (CPython does not strip its tail)
                    out.append(simp(self.cs[i:]))
                    break
                j = i
                while j < n and not mk(tobool(self._ws(self.cs[j]))):
                    j += 1
                out.append(simp(self.cs[i:j]))
                i = j
            return out
        sepc = chars_of(sep)
        if not sepc:
            raise ValueError('empty separator')
        out = []
        i = 0
        start = 0
        n = len(self.cs)
        L = len(sepc)
        while i + L <= n:
            if maxsplit >= 0 and len(out) >= maxsplit:
                break
            if mk(self._match_at(sepc, i)):
                out.append(simp(self.cs[start:i]))
                i += L
                start = i
            else:
                i += 1
        out.append(simp(self.cs[start:]))
        return out

    def rsplit(self, sep=None, maxsplit=-1):
        if sep is None:
            raise Unsupported('rsplit(None)')
        sepc = chars_of(sep)
        out = []
        n = len(self.cs)
        L = len(sepc)
        end = n
        i = n - L
        while i >= 0:
            if maxsplit >= 0 and len(out) >= maxsplit:
                break
            if mk(self._match_at(sepc, i)):
                out.append(simp(self.cs[i + L:end]))
                end = i
                i -= L
            else:
                i -= 1
        out.append(simp(self.cs[:end]))
        out.reverse()
        return out

    def splitlines(self, keepends=False):
        """str.splitlines: boundaries are the characters the running interpreter treats as line
        breaks (table computed at import), '\\r\\n' counting as one; decided position by position"""
        from .core import current
        eng = current()
        cs = self._self().cs
        out = []
        start = 0
        i = 0
        n = len(cs)
        while i < n:
            c = cs[i]
            if isinstance(c, int):
                brk = c in _LINEBREAKS
            else:
                brk = eng.decide(_in_ranges(c, _LINEBREAK_RANGES))
            if not brk:
                i += 1
                continue
            end = i + 1
            if end < n:
                if isinstance(c, int):
                    is_cr = c == 13
                else:
                    is_cr = eng.decide(c == 13)
                if is_cr:
                    d = cs[end]
                    if (d == 10) if isinstance(d, int) else eng.decide(d == 10):
                        end += 1
            out.append(simp(cs[start:end] if keepends else cs[start:i]))
            start = i = end
        if start < n:
            out.append(simp(cs[start:]))
        return out

    def lower(self):
        d = self._dom()
        return simp(tuple(d.lower(c) for c in self._self().cs))

    def upper(self):
        d = self._dom()
        return simp(tuple(d.upper(c) for c in self._self().cs))

    def _match_at(self, sub, i):
        if not sub:
            return z3.BoolVal(True)
        return zand([ceq(self.cs[i + j], sub[j]) for j in range(len(sub))])

    def find(self, sub, start=0, end=None):
        sub = chars_of(sub)
        n = len(self.cs) if end is None else min(end, len(self.cs))
        if start < 0:
            start = max(0, len(self.cs) + start)
        for i in range(start, n - len(sub) + 1):
            if mk(self._match_at(sub, i)):
                return i
        return -1

    def rfind(self, sub, start=0, end=None):
        sub = chars_of(sub)
        n = len(self.cs) if end is None else min(end, len(self.cs))
        for i in range(n - len(sub), start - 1, -1):
            if mk(self._match_at(sub, i)):
                return i
        return -1

    def index(self, sub, start=0):
        r = self.find(sub, start)
        if r < 0:
            raise ValueError('substring not found')
        return r

    def count(self, sub):
        sub = chars_of(sub)
        if not sub:
            return len(self.cs) + 1
        i = 0
        k = 0
        while i + len(sub) <= len(self.cs):
            if mk(self._match_at(sub, i)):
                k += 1
                i += len(sub)
            else:
                i += 1
        return k

    def startswith(self, p, start=0):
        if isinstance(p, tuple):
            for q in p:
                if self.startswith(q, start):
                    return True
            return False
        p = chars_of(p)
        if start < 0:
            start = max(0, len(self.cs) + start)
        if start + len(p) > len(self.cs):
            return False
        return mk(self._match_at(p, start))

    def endswith(self, p):
        if isinstance(p, tuple):
            for q in p:
                if self.endswith(q):
                    return True
            return False
        p = chars_of(p)
        if len(p) > len(self.cs):
            return False
        return mk(self._match_at(p, len(self.cs) - len(p)))

    def replace(self, old, new, count=-1):
        oldc, newc = chars_of(old), chars_of(new)
        if not oldc:
            raise Unsupported('replace of empty string')
        if len(oldc) == 1 and len(newc) == 1 and count == -1:
            o, n = oldc[0], newc[0]
            if isinstance(o, int) and isinstance(n, int):
                return simp(tuple((n if c == o else c) if isinstance(c, int)
                                  else z3.If(c == o, n, c) for c in self.cs))
        out = ()
        i = 0
        done = 0
        while i < len(self.cs):
            if (count < 0 or done < count) and i + len(oldc) <= len(self.cs) \
                    and mk(self._match_at(oldc, i)):
                out += newc
                i += len(oldc)
                done += 1
            else:
                out += (self.cs[i],)
                i += 1
        return simp(out)

    def join(self, parts):
        return join(self, parts)

    def encode(self, *a, **k):
        raise Unsupported('encode')

    def format(self, *a, **k):
        raise Unsupported('str.format on symbolic string')

    def casefold(self):
        """str.casefold on domain D (every member folds to exactly one member character; table from
        the running interpreter); domain U: only for characters already forced to ASCII"""
        d = self._dom()
        out = []
        for c in self._self().cs:
            if isinstance(c, int):
                r = chr(c).casefold()
                if len(r) != 1:
                    raise Unsupported('casefold() changes length')
                out.append(ord(r))
                continue
            if d.full:
                if core.ENG.check(c >= 128):
                    raise Unsupported('casefold() of a possibly non-ASCII character in domain U')
                out.append(z3.If(z3.And(c >= 65, c <= 90), c + 32, c))
                continue
            tbl = d.__dict__.get('_fold')
            if tbl is None:
                tbl = {}
                for m in d.members:
                    r = chr(m).casefold()
                    if len(r) != 1 or ord(r) not in d.members:
                        raise Unsupported('casefold() of U+%04X leaves the domain' % m)
                    if ord(r) != m:
                        tbl[m] = ord(r)
                d.__dict__['_fold'] = tbl
            e = c
            for src, dst in tbl.items():
                e = z3.If(c == src, dst, e)
            out.append(e)
        return simp(tuple(out))

    def swapcase(self):
        d = self._dom()
        out = []
        for c in self.cs:
            if isinstance(c, int):
                out.append(ord(chr(c).swapcase()) if len(chr(c).swapcase()) == 1 else c)
            else:
                lo, up = d.lower(c), d.upper(c)
                out.append(z3.If(lo != c, lo, up))
        return simp(tuple(out))


class OpaqueMsg(str):
    """A message string built from symbolic parts; content is not modelled."""


def join(sep, parts):
    sepc = chars_of(sep)
    out = ()
    first = True
    for p in parts:
        if not first:
            out += sepc
        out += chars_of(p)
        first = False
    return simp(out)


def symstr_of(x):
    if isinstance(x, SymStr):
        return x
    return SymStr(chars_of(x))


# ---------------------------------------------------------------------- int() model
def sym_int(s):
    """Model of int(str) in base 10: optional surrounding whitespace, sign, decimal
    digits (ASCII and the domain's other Nd digits), single underscores between digits."""
    if isinstance(s, str):
        return int(s)
    d = core.ENG.domain
    cs = s.cs
    a, b = 0, len(cs)
    while a < b and mk(tobool(d.is_int_space(cs[a]))):
        a += 1
    while b > a and mk(tobool(d.is_int_space(cs[b - 1]))):
        b -= 1
    t = simp(cs[a:b])
    if isinstance(t, str):
        return int(t)
    cs = t.cs
    if not cs:
        raise ValueError('invalid literal for int() with base 10')
    i = 0
    neg = False
    if mk(zor([ceq(cs[0], 45), ceq(cs[0], 43)])):
        neg = bool(mk(ceq(cs[0], 45)))
        i = 1
    if i >= len(cs):
        raise ValueError('invalid literal for int() with base 10')
    val = 0
    prev_digit = False
    for j in range(i, len(cs)):
        c = cs[j]
        if mk(tobool(d.is_digit(c))):
            val = val * 10 + d.digit_val(c)
            prev_digit = True
        elif prev_digit and j + 1 < len(cs) and mk(ceq(c, 95)):
            prev_digit = False
        else:
            raise ValueError('invalid literal for int() with base 10')
    if not prev_digit:
        raise ValueError('invalid literal for int() with base 10')
    return symint(-val if neg else val)


# ---------------------------------------------------------------------- float() model
_FLOAT_MAX = 17976931348623157 * 10 ** 292          # largest finite double, as an integer


def _digit_run(cs, j, d, concrete=False):
    """digits with single underscores between them, from position j -> (value, count, next j);
    value is an int / z3 Int term, or a concrete int when `concrete` (forks on every digit)"""
    val = 0
    n = 0
    prev = False
    while j < len(cs):
        c = cs[j]
        if mk(tobool(d.is_digit(c))):
            dv = d.digit_val(c)
            if concrete and not isinstance(dv, int):
                k = 0
                while not mk(dv == k):
                    k += 1
                dv = k
            val = val * 10 + dv
            n += 1
            prev = True
            j += 1
        elif prev and j + 1 < len(cs) and mk(ceq(c, 95)) and mk(tobool(d.is_digit(cs[j + 1]))):
            prev = False
            j += 1
        else:
            break
    return val, n, j


def sym_float(s):
    """Model of float(str): optional surrounding whitespace (the set int() strips), sign, 'inf' /
    'infinity' / 'nan' in any case, or decimal digits (ASCII and the domain's other Nd digits, single
    underscores between digits) with optional fraction and exponent.  The value is the EXACT rational
    number the literal denotes (core.SymFloat); the exponent is made concrete by forking."""
    if isinstance(s, str):
        return float(s)
    import fractions
    d = core.ENG.domain
    cs = s.cs
    a, b = 0, len(cs)
    while a < b and mk(tobool(d.is_int_space(cs[a]))):
        a += 1
    while b > a and mk(tobool(d.is_int_space(cs[b - 1]))):
        b -= 1
    t = simp(cs[a:b])
    if isinstance(t, str):
        return float(t)
    cs = t.cs
    bad = ValueError('could not convert string to float')
    if not cs:
        raise bad
    i = 0
    neg = False
    if mk(zor([ceq(cs[0], 45), ceq(cs[0], 43)])):
        neg = bool(mk(ceq(cs[0], 45)))
        i = 1
    rest = cs[i:]
    for word, kind in (('inf', 'inf'), ('infinity', 'inf'), ('nan', 'nan')):
        if len(rest) == len(word) and mk(zand([zor([ceq(c, ord(ch)), ceq(c, ord(ch.upper()))])
                                               for c, ch in zip(rest, word)])):
            return core.SymFloat('nan' if kind == 'nan' else ('ninf' if neg else 'inf'))
    iv, ni, j = _digit_run(cs, i, d)
    fv, nf = 0, 0
    if j < len(cs) and mk(ceq(cs[j], 46)):
        fv, nf, j = _digit_run(cs, j + 1, d)
    if ni + nf == 0:
        raise bad
    ex = 0
    if j < len(cs) and mk(zor([ceq(cs[j], 101), ceq(cs[j], 69)])):
        j += 1
        eneg = False
        if j < len(cs) and mk(zor([ceq(cs[j], 45), ceq(cs[j], 43)])):
            eneg = bool(mk(ceq(cs[j], 45)))
            j += 1
        ev, ne, j = _digit_run(cs, j, d, concrete=True)
        if ne == 0:
            raise bad
        ex = -ev if eneg else ev
    if j != len(cs):
        raise bad
    mant = iv * (10 ** nf) + fv
    scale = fractions.Fraction(10) ** (ex - nf)
    if isinstance(mant, int):
        val = core.real_term(mant * scale)
        over = mant * scale > _FLOAT_MAX
    else:
        val = z3.ToReal(mant) * core.real_term(scale)
        over = mk(val > core.real_term(_FLOAT_MAX))
    if over:
        return core.SymFloat('ninf' if neg else 'inf')
    return core.SymFloat('fin', -val if neg else val)


# ---------------------------------------------------------------------- dual-mode helpers
# (usable by oracles on both str and SymStr, so the same oracle runs in the engine and in
#  the pristine replay worker)
def is_space(ch):
    if isinstance(ch, str):
        return ch.isspace()
    return ch.isspace()


def is_int_space(ch):
    """whitespace that int() strips (not identical to str.isspace: U+001C..U+001F are kept)"""
    if isinstance(ch, str):
        return ord(ch) in _INT_SPACE
    return mk(tobool(core.ENG.domain.is_int_space(ch.cs[0])))


def char_in(ch, lo, hi):
    """single character in the inclusive range lo..hi"""
    if isinstance(ch, str):
        return len(ch) == 1 and lo <= ch <= hi
    c = ch.cs[0]
    return mk(zand([c >= ord(lo), c <= ord(hi)]))


def char_is(ch, *alts):
    if isinstance(ch, str):
        return ch in alts
    c = ch.cs[0]
    return mk(zor([ceq(c, ord(a)) for a in alts]))


def is_ascii_alpha(ch):
    if isinstance(ch, str):
        return len(ch) == 1 and ('a' <= ch <= 'z' or 'A' <= ch <= 'Z')
    c = ch.cs[0]
    return mk(z3.Or(z3.And(c >= 65, c <= 90), z3.And(c >= 97, c <= 122)))


def is_ascii_digit(ch):
    return char_in(ch, '0', '9')


def is_dec_digit(ch):
    """Unicode decimal digit (what int() and regex \\d accept)"""
    if isinstance(ch, str):
        return unicodedata.decimal(ch, None) is not None
    return mk(tobool(core.ENG.domain.is_digit(ch.cs[0])))


def dec_value(ch):
    """value of a decimal digit character (dual-mode)"""
    if isinstance(ch, str):
        return unicodedata.decimal(ch)
    return symint(core.ENG.domain.digit_val(ch.cs[0]))


def is_hex_digit(ch):
    if isinstance(ch, str):
        return len(ch) == 1 and ch in '0123456789abcdefABCDEF'
    c = ch.cs[0]
    return mk(z3.Or(z3.And(c >= 48, c <= 57), z3.And(c >= 65, c <= 70), z3.And(c >= 97, c <= 102)))

"""Harness base class and the per-unit exploration task.

A harness describes, for one property:
  units(tier)            -> list of JSON-able work-unit descriptors
  inputs(eng, unit)      -> dict name -> symbolic value (and eng.assume(...) preconditions)
  observe(unit, inp)     -> outcome of the REAL code (JSON-able structure, symbolic leaves ok)
  expect(unit, inp, real)-> outcome demanded by the property (independent oracle or the real
                            code on a second spelling); dual-mode: runs on symbolic and on
                            concrete inputs
  agree(unit, real, exp) -> z3 Bool / bool (no forking)
observe/expect/agree run unchanged in the pristine replay worker on concrete inputs.
"""
import hashlib
import json
import os
import subprocess
import sys
import time
import traceback

import z3

from . import core
from .core import (Engine, Abort, Unsupported, StepLimit, SolverUnknown, EngineSignal,
                   concretize, deep_eq, mk)
from .symstr import SymStr, domain_D, domain_U, ceq

VERIF = os.path.dirname(os.path.dirname(os.path.abspath(__file__)))


def jsonable(x):
    if isinstance(x, tuple):
        return [jsonable(y) for y in x]
    if isinstance(x, list):
        return [jsonable(y) for y in x]
    if isinstance(x, dict):
        return {str(k): jsonable(v) for k, v in x.items()}
    if isinstance(x, (str, int, float, bool)) or x is None:
        return x
    return repr(x)


def truth(x):
    """z3 Bool / SymBool / bool -> python bool (concrete mode)"""
    if isinstance(x, bool):
        return x
    if isinstance(x, core.SymBool):
        x = x.e
    x = z3.simplify(x)
    if z3.is_true(x):
        return True
    if z3.is_false(x):
        return False
    raise RuntimeError('non-concrete truth value in concrete mode')


class Harness:
    prop = None
    domain = 'D'
    title = ''
    functions = ()            # anchored functions this harness drives (for the evidence)
    stubs = ()
    assumptions = ()
    expected_classes = ()     # outcome classes that must be non-empty (vacuity guard)
    bounds = {}
    step_limit = 20000
    degrade_samples = 8

    # -- to be provided by subclasses
    def units(self, tier):
        raise NotImplementedError

    def inputs(self, eng, unit):
        raise NotImplementedError

    def observe(self, unit, inp):
        raise NotImplementedError

    def expect(self, unit, inp, real):
        raise NotImplementedError

    def agree(self, unit, real, exp):
        return deep_eq(real, exp)

    def classify(self, unit, real):
        """outcome class of a concrete outcome, for the histogram / vacuity guard"""
        if isinstance(real, (list, tuple)) and real and isinstance(real[0], str):
            return real[0]
        return 'other'

    def boundary(self, eng, unit, inp):
        """extra z3 conditions; each satisfiable one yields one more replayed witness"""
        return []

    def reset(self):
        """restore process-wide state before each path"""

    def finding(self, unit, inp, real, exp):
        """id of the known finding a confirmed concrete counterexample belongs to, or None"""
        return None

    def nontrivial(self, unit, inp, real):
        return True

    def make_domain(self, unit=None):
        return domain_U() if self.domain == 'U' else domain_D()

    # -- helpers for subclasses
    def sym_str(self, eng, name, n, pred=None):
        """fresh symbolic string of n characters; pred(c, i) -> extra z3 constraint per
        character.  Variables and constraint terms are cached per process: z3 terms are
        immutable and hash-consed, so re-using them across paths changes nothing but time."""
        cache = self.__dict__.setdefault('_symstr_cache', {})
        if pred is not None and '<lambda>' in getattr(pred, '__qualname__', '<lambda>'):
            raise RuntimeError('sym_str predicates must be named module-level functions')
        key = (name, n, eng.domain.name, pred)
        got = cache.get(key)
        if got is None:
            dom = eng.domain
            cs = []
            cons = []
            for i in range(n):
                c = z3.Int('%s_%d' % (name, i))
                cons.append(dom.member(c))
                if pred is not None:
                    p = pred(c, i)
                    if p is not None:
                        cons.append(p)
                cs.append(c)
            got = (tuple(cs), cons, pred)
            cache[key] = got
        for c in got[1]:
            eng.assume(c)
        eng.inputs.append(name)
        return SymStr(got[0])


def load_harness(prop):
    import importlib
    mod = importlib.import_module('vf.harness.' + prop.lower())
    return mod.HARNESS


# ---------------------------------------------------------------------- replay worker client
class WorkerClient:
    def __init__(self):
        self.p = None

    def start(self):
        env = dict(os.environ)
        env['PYTHONPATH'] = VERIF
        env['PYTHONHASHSEED'] = '0'
        env.pop('VERIF_INSTRUMENT', None)
        self.p = subprocess.Popen([sys.executable, '-m', 'vf.worker'], stdin=subprocess.PIPE,
                                  stdout=subprocess.PIPE, env=env, cwd=VERIF, text=True,
                                  encoding='ascii')

    def call(self, req):
        if self.p is None or self.p.poll() is not None:
            self.start()
        self.p.stdin.write(json.dumps(req) + '\n')
        self.p.stdin.flush()
        line = self.p.stdout.readline()
        if not line:
            raise RuntimeError('replay worker died')
        return json.loads(line)

    def close(self):
        if self.p is not None:
            try:
                self.p.stdin.close()
                self.p.wait(timeout=5)
            except Exception:
                self.p.kill()
            self.p = None


_WORKER = WorkerClient()


def concrete_run(h, unit, inp):
    """run observe/expect/agree on concrete inputs in THIS process (used by the worker)"""
    h.reset()
    real = h.observe(unit, inp)
    exp = h.expect(unit, inp, real)
    ok = truth(h.agree(unit, real, exp))
    return {'real': jsonable(real), 'exp': jsonable(exp), 'agree': ok}


# ---------------------------------------------------------------------- the exploration task
def run_task(prop, unit, prefixes, slice_s, validate=True):
    """Explore one unit (or the given decision prefixes of it) for at most slice_s seconds.
    Returns a JSON-able result dict including the unexplored prefixes."""
    from . import instr
    h = load_harness(prop)
    dom = h.make_domain(unit)
    eng = Engine(dom, step_limit=h.step_limit)
    res = {
        'unit': unit, 'paths': 0, 'classes': {}, 'violations': [], 'witnesses': 0,
        'witness_mismatch': [], 'degraded': [], 'inconclusive': [], 'samples': [],
        'nontrivial': 0, 'obligations': 0, 'discharged': 0, 'boundary_witnesses': 0,
    }
    pending = []          # (kind, inp_concrete, expected_real_json)

    def body(eng):
        instr.reset_path_state()
        h.reset()
        try:
            eng._last_inputs = None
            inp = h.inputs(eng, unit)
            eng._last_inputs = inp
            if not eng.check():
                raise Abort()
            real = h.observe(unit, inp)
            exp = h.expect(unit, inp, real)
            ok = h.agree(unit, real, exp)
        except (Unsupported, StepLimit) as e:
            # degrade, don't die: sample models of the path condition, run concretely
            what = '%s: %s' % (type(e).__name__, e)
            tb = traceback.extract_tb(e.__traceback__)
            where = ['%s:%d' % (os.path.basename(f.filename), f.lineno) for f in tb[-4:]]
            res['degraded'].append({'why': what, 'where': where})
            _sample_models(eng, h, unit, pending, res)
            return
        except SolverUnknown as e:
            res['inconclusive'].append('solver unknown: %s' % e)
            return
        if isinstance(ok, core.SymBool):
            ok = ok.e
        if isinstance(ok, bool):
            ok = z3.BoolVal(ok)
        res['obligations'] += 1
        try:
            m = eng.model(z3.Not(ok))
        except SolverUnknown as e:
            res['inconclusive'].append('solver unknown at end of path: %s' % e)
            return
        if m is None:
            res['discharged'] += 1
        else:
            cin = concretize(inp, m)
            pending.append(('violation', cin, None))
        m2 = eng.model()
        if m2 is None:
            raise Abort()
        cin = concretize(inp, m2)
        creal = jsonable(concretize(real, m2))
        cls = h.classify(unit, creal)
        res['classes'][cls] = res['classes'].get(cls, 0) + 1
        if h.nontrivial(unit, cin, creal):
            res['nontrivial'] += 1
        if len(res['samples']) < 3:
            res['samples'].append({'input': jsonable(cin), 'outcome': creal})
        if validate:
            pending.append(('witness', cin, creal))
            for cond in h.boundary(eng, unit, inp):
                mb = eng.model(cond)
                if mb is not None:
                    pending.append(('witness', concretize(inp, mb),
                                    jsonable(concretize(real, mb))))
                    res['boundary_witnesses'] += 1

    t0 = time.time()
    left = eng.explore(body, prefixes=prefixes, deadline=t0 + slice_s)
    res['paths'] = eng.paths
    res['aborted'] = eng.aborted
    res['decisions'] = eng.decisions_total
    res['forks'] = eng.forks
    res['solver_checks'] = eng.checks
    res['solver_time'] = eng.solver_time
    res['left'] = left
    # ---- concrete replays against pristine code
    seen = set()
    for kind, cin, expected in pending:
        key = (kind, json.dumps(jsonable(cin), sort_keys=True))
        if key in seen:
            continue
        seen.add(key)
        r = _WORKER.call({'prop': prop, 'unit': unit, 'inp': jsonable(cin)})
        if 'error' in r:
            res['witness_mismatch'].append({'input': jsonable(cin), 'worker_error': r['error']})
            continue
        if kind == 'witness':
            res['witnesses'] += 1
            if r['real'] != expected:
                res['witness_mismatch'].append({'input': jsonable(cin), 'symbolic': expected,
                                                'pristine': r['real']})
            if not r['agree']:
                # found by a witness rather than by the end-of-path query: still a violation
                res['violations'].append({'input': jsonable(cin), 'real': r['real'],
                                          'exp': r['exp'], 'via': 'witness'})
        elif kind in ('violation', 'sample'):
            if not r['agree']:
                res['violations'].append({'input': jsonable(cin), 'real': r['real'],
                                          'exp': r['exp'], 'via': kind})
            elif kind == 'violation':
                res['witness_mismatch'].append({'input': jsonable(cin),
                                                'note': 'solver counterexample did not reproduce',
                                                'pristine': r})
    res['wall'] = time.time() - t0
    res['functions'] = sorted(instr.FUNCS_SEEN)
    res['stubs_used'] = sorted(instr.STUBS_USED)
    return res


def _sample_models(eng, h, unit, pending, res):
    """up to K distinct models of the current path condition -> concrete replays"""
    block = []
    try:
        for _ in range(h.degrade_samples):
            m = eng.model(*block)
            if m is None:
                break
            vals = []
            for d in m.decls():
                vals.append(d() != m[d])
            inp = getattr(eng, '_last_inputs', None)
            if inp is None:
                break
            pending.append(('sample', concretize(inp, m), None))
            if not vals:
                break
            block.append(z3.Or(vals))
        # the harness' own adversarial boundary conditions
        inp0 = getattr(eng, '_last_inputs', None)
        if inp0:
            try:
                conds = h.boundary(eng, unit, inp0)
            except Exception:
                conds = []
            for cond in conds[:12]:
                m = eng.model(cond)
                if m is not None:
                    pending.append(('sample', concretize(inp0, m), None))
        # boundary-biased samples: each symbolic string starting with a character that native
        # code commonly treats specially
        inp = getattr(eng, '_last_inputs', None) or {}
        extra = 0
        for name in sorted(inp):
            v = inp[name]
            if not isinstance(v, SymStr) or not v.cs or isinstance(v.cs[0], int):
                continue
            for ch in '~./#$%<>-+:[ \t':
                if extra >= 30:
                    break
                m = eng.model(v.cs[0] == ord(ch))
                if m is not None:
                    pending.append(('sample', concretize(inp, m), None))
                    extra += 1
    except SolverUnknown:
        pass


def replay_id(prop, unit, inp):
    s = json.dumps([prop, unit, inp], sort_keys=True)
    return hashlib.sha1(s.encode()).hexdigest()[:16]
